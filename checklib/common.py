"""Shared machinery of ./check: builds, Lean obligations + axiom audit, srcfacts drift,
correspondence comparison, violation / known-finding reporting, evidence writing."""
import fcntl
import hashlib
import json
import os
import re
import shutil
import subprocess
import sys
import time

VERIF = os.path.dirname(os.path.dirname(os.path.abspath(__file__)))
REPO = os.environ.get("VERIF_REPO", "/repo")
# Self-test mode: VERIF_REPO=<scratch copy> checks a mutated copy of the repository. Everything that
# depends on the repository (binaries, regenerated Lean facts, Lean build, run dirs, evidence, replays)
# then lives in a private area so that concurrent normal runs on /repo are not disturbed.
MUT = os.path.realpath(REPO) != "/repo"
BUILD0 = os.path.join(VERIF, ".build")
if MUT:
    BUILD = os.path.join(BUILD0, "mut", hashlib.md5(os.path.realpath(REPO).encode()).hexdigest()[:10])
    LEAN = os.path.join(BUILD, "lean")
    OUT = BUILD  # evidence/ and replays/ of a self-test run
else:
    BUILD = BUILD0
    LEAN = os.path.join(VERIF, "lean")
    OUT = VERIF
BIN = os.path.join(BUILD, "bin")


def driver_path(exe):
    return os.path.join(LEAN, ".lake", "build", "bin", exe)

ALLOWED_AXIOMS = {"propext", "Classical.choice", "Quot.sound"}
NCPU = os.cpu_count() or 4

GOENV = dict(os.environ, GOFLAGS="-mod=mod", GOPROXY="off", GOSUMDB="off", GOTOOLCHAIN="local",
             GOCACHE=os.path.join(BUILD0, "gocache"))


def prepare():
    """self-test mode: snapshot the Lean project (with its build products) into the private area"""
    os.makedirs(BUILD, exist_ok=True)
    if MUT:
        with Lock("lake", base=BUILD0):
            subprocess.run(["rsync", "-a", "--delete", os.path.join(VERIF, "lean") + "/", LEAN + "/"], check=True)



def log(*a):
    print(*a, file=sys.stderr, flush=True)


def sh(cmd, cwd=None, env=None, timeout=None, stdin=None, stdout=subprocess.PIPE, check=False):
    t0 = time.time()
    p = subprocess.run(cmd, cwd=cwd, env=env, timeout=timeout, stdin=stdin, stdout=stdout,
                       stderr=subprocess.PIPE, text=True)
    if check and p.returncode != 0:
        raise RuntimeError("command failed (%d): %s\n%s\n%s" % (p.returncode, cmd, p.stdout or "", p.stderr))
    p.wall = time.time() - t0
    return p


class Lock:
    """flock-based mutual exclusion between concurrently running checks"""

    def __init__(self, name, base=None):
        base = base or BUILD
        os.makedirs(base, exist_ok=True)
        self.path = os.path.join(base, name + ".lock")

    def __enter__(self):
        self.f = open(self.path, "w")
        fcntl.flock(self.f, fcntl.LOCK_EX)
        return self

    def __exit__(self, *a):
        fcntl.flock(self.f, fcntl.LOCK_UN)
        self.f.close()


# ----------------------------------------------------------------------------- builds

def harness_modfile():
    """go.mod for the harness module with the replace directive pointing at REPO"""
    src = os.path.join(VERIF, "harness", "go.mod")
    if not MUT:
        return src
    alt = os.path.join(BUILD, "go.alt.mod")
    txt = open(src).read().replace("=> /repo", "=> " + REPO)
    if not os.path.exists(alt) or open(alt).read() != txt:
        os.makedirs(BUILD, exist_ok=True)
        open(alt, "w").write(txt)
    return alt


def build_tool(name, srcdir):
    """build a helper tool that does not depend on the repository (srcfacts)"""
    out = os.path.join(BIN, name)
    with Lock("gobuild"):
        p = sh(["go", "build", "-o", out, "."], cwd=srcdir, env=GOENV)
    if p.returncode != 0:
        raise RuntimeError("go build %s failed:\n%s" % (name, p.stderr))
    return out


def build_harness(cmd, tags="", race=False, goflags=None):
    """(re)build harness/cmd/<cmd> against the current working tree of REPO. Returns (path, error)"""
    suffix = ("-" + tags.replace(" ", "_") if tags else "") + ("-race" if race else "")
    out = os.path.join(BIN, cmd + suffix)
    args = ["go", "build", "-modfile=" + harness_modfile(), "-o", out]
    if tags:
        args += ["-tags", tags]
    if race:
        args += ["-race"]
    args += goflags or []
    args += ["./cmd/" + cmd]
    with Lock("gobuild"):
        if os.path.exists(out):
            os.remove(out)  # never run a stale binary
        p = sh(args, cwd=os.path.join(VERIF, "harness"), env=GOENV)
    if p.returncode != 0:
        return None, p.stderr
    return out, None


def run_srcfacts():
    """regenerate Got/Generated/*.lean and facts.json from REPO; returns facts dict"""
    tool = os.path.join(BIN, "srcfacts")
    srcdir = os.path.join(VERIF, "tools", "srcfacts")
    newest = max(os.path.getmtime(os.path.join(srcdir, f)) for f in os.listdir(srcdir))
    if not os.path.exists(tool) or os.path.getmtime(tool) < newest:
        build_tool("srcfacts", srcdir)
    out = os.path.join(BUILD, "facts.json")
    with Lock("srcfacts"):
        p = sh([tool, "-repo", REPO, "-json", out, "-lean", os.path.join(LEAN, "Got", "Generated")], env=GOENV)
        facts = json.load(open(out)) if os.path.exists(out) else {}
    if p.returncode not in (0, 3):
        raise RuntimeError("srcfacts failed: " + p.stderr)
    return facts


def facts_drift(facts, anchors):
    """compare hashes of the anchored functions with expected_facts.json.
    anchors: list of function keys ("pkg.Recv.Name") or prefixes ending with '*'."""
    exp_path = os.path.join(VERIF, "expected_facts.json")
    exp = json.load(open(exp_path)) if os.path.exists(exp_path) else {"funcs": {}, "consts": {}}
    changed, missing = [], []

    def sel(d):
        keys = set()
        for a in anchors:
            if a.endswith("*"):
                keys |= {k for k in d if k.startswith(a[:-1])}
            else:
                keys.add(a)
        return keys
    for k in sorted(sel(exp.get("funcs", {})) | sel(facts.get("funcs", {}))):
        e, f = exp.get("funcs", {}).get(k), facts.get("funcs", {}).get(k)
        if e is None and f is None:
            missing.append(k)
        elif e is None or f is None:
            changed.append(k + (" (added)" if e is None else " (removed)"))
        elif e["hash"] != f["hash"]:
            changed.append(k)
    consts = [k for k in sorted(set(exp.get("consts", {})) | set(facts.get("consts", {})))
              if exp.get("consts", {}).get(k) != facts.get("consts", {}).get(k)]
    return {"changed_functions": changed, "changed_constants": consts, "unknown_anchors": missing}


# ----------------------------------------------------------------------------- Lean

def lake_build(targets, timeout=3600):
    with Lock("lake"):
        p = sh(["lake", "build"] + targets, cwd=LEAN, timeout=timeout)
    return p.returncode == 0, (p.stdout or "") + p.stderr


THEOREM_RE = re.compile(r"^\s*(?:@\[[^\]]*\]\s*)?(?:private\s+|protected\s+)?theorem\s+([A-Za-z_][A-Za-z0-9_.']*)", re.M)


def props_theorems(prop_id):
    """names of the property theorems = every `theorem` of Got/Props/<id>.lean (top-level namespace)"""
    path = os.path.join(LEAN, "Got", "Props", prop_id + ".lean")
    src = open(path).read()
    src = re.sub(r"/-.*?-/", "", src, flags=re.S)
    src = re.sub(r"--[^\n]*", "", src)
    return THEOREM_RE.findall(src)


def audit(prop_id):
    """#print axioms for every property theorem; returns list of {name, axioms, ok}"""
    names = props_theorems(prop_id)
    d = os.path.join(BUILD, "audit")
    os.makedirs(d, exist_ok=True)
    f = os.path.join(d, prop_id + ".lean")
    with open(f, "w") as fh:
        fh.write("import Got.Props.%s\n" % prop_id)
        for n in names:
            fh.write("#print axioms %s\n" % n)
    with Lock("lake"):
        p = sh(["lake", "env", "lean", f], cwd=LEAN, timeout=1800)
    out = (p.stdout or "") + p.stderr
    res = []
    for n in names:
        m = re.search(r"'%s' depends on axioms: \[([^\]]*)\]" % re.escape(n), out, re.S)
        if m:
            ax = [a.strip() for a in m.group(1).replace("\n", " ").split(",") if a.strip()]
            res.append({"name": n, "axioms": ax, "ok": set(ax) <= ALLOWED_AXIOMS})
        elif re.search(r"'%s' does not depend on any axioms" % re.escape(n), out):
            res.append({"name": n, "axioms": [], "ok": True})
        else:
            res.append({"name": n, "axioms": ["<not checked>"], "ok": False})
    return res, out


FORBIDDEN = re.compile(r"\b(sorry|admit|native_decide|bv_decide|implemented_by|unsafe)\b|^\s*axiom\s|maxHeartbeats\s+0", re.M)


def import_closure(prop_id):
    """hand-written Lean files Got.Props.<id> depends on (transitively, inside the project)"""
    seen, todo = set(), ["Got.Props." + prop_id]
    while todo:
        mod = todo.pop()
        if mod in seen:
            continue
        path = os.path.join(LEAN, *mod.split(".")) + ".lean"
        if not os.path.exists(path):
            continue
        seen.add(mod)
        for m in re.finditer(r"^\s*import\s+(Got\.[A-Za-z0-9_.]+)", open(path).read(), re.M):
            todo.append(m.group(1))
    return sorted(seen)


def forbidden_tokens(prop_id):
    """scan the Lean sources the property depends on (comments stripped) for constructs the axiom policy bans"""
    hits = []
    for mod in import_closure(prop_id):
        if mod.startswith("Got.Generated."):
            continue
        p = os.path.join(LEAN, *mod.split(".")) + ".lean"
        src = open(p).read()
        src = re.sub(r"/-.*?-/", "", src, flags=re.S)
        src = re.sub(r"--[^\n]*", "", src)
        src = re.sub(r'"(?:[^"\\]|\\.)*"', '""', src)
        for m in FORBIDDEN.finditer(src):
            hits.append("%s: %s" % (os.path.relpath(p, LEAN), m.group(0).strip()))
    return hits


def lean_obligations(prop_id, thorough=False, exe=None):
    """L1: build Props module (+driver exe), audit axioms. Returns dict for the evidence."""
    t0 = time.time()
    ok, out = lake_build(["Got.Props." + prop_id] + ([exe] if exe else []))
    res = {"build_ok": ok, "theorems": [], "obligations": 0, "discharged": 0, "build_log_tail": ""}
    names = props_theorems(prop_id)
    res["obligations"] = len(names)
    if not ok:
        res["build_log_tail"] = out[-3000:]
        res["theorems"] = [{"name": n, "axioms": ["<build failed>"], "ok": False} for n in names]
        res["wall_s"] = round(time.time() - t0, 2)
        return res
    ths, aout = audit(prop_id)
    res["theorems"] = ths
    res["discharged"] = sum(1 for t in ths if t["ok"])
    bad = forbidden_tokens(prop_id)
    res["forbidden_tokens"] = bad
    if bad:
        res["discharged"] = 0
    if thorough:
        with Lock("lake"):
            p = sh(["lake", "env", "leanchecker", "Got.Props." + prop_id], cwd=LEAN, timeout=3600)
        res["leanchecker"] = {"rc": p.returncode, "tail": ((p.stdout or "") + p.stderr)[-500:]}
        if p.returncode != 0:
            res["discharged"] = 0
    res["wall_s"] = round(time.time() - t0, 2)
    return res


def run_driver(exe, args, script_path, out_path, timeout=3600):
    with open(script_path) as fin, open(out_path, "w") as fout:
        p = sh([driver_path(exe)] + args, stdin=fin, stdout=fout, timeout=timeout)
    return p.returncode, p.stderr


# ----------------------------------------------------------------------------- findings / evidence

def known_findings(prop_id):
    path = os.path.join(VERIF, "KNOWN_FINDINGS.jsonl")
    out = []
    if os.path.exists(path):
        for line in open(path):
            line = line.strip()
            if line and not line.startswith("#"):
                e = json.loads(line)
                if e.get("property") == prop_id:
                    out.append(e)
    return out


def write_replay(prop_id, name, payload):
    d = os.path.join(OUT, "replays")
    os.makedirs(d, exist_ok=True)
    path = os.path.join(d, "%s-%s.json" % (prop_id, name))
    with open(path, "w") as fh:
        json.dump(payload, fh, indent=1)
        fh.write("\n")
    return path


def write_evidence(prop_id, tier, seed, coverage, wall_s, violations, assumptions):
    d = os.path.join(OUT, "evidence")
    os.makedirs(d, exist_ok=True)
    ev = {"property_id": prop_id, "tier": tier, "seed": seed, "level": "proof", "coverage": coverage,
          "assumptions": assumptions, "wall_s": round(wall_s, 2), "violations": violations}
    tmp = os.path.join(d, prop_id + ".json.tmp")
    with open(tmp, "w") as fh:
        json.dump(ev, fh, indent=1, sort_keys=False)
        fh.write("\n")
    os.replace(tmp, os.path.join(d, prop_id + ".json"))


def line_hash(s):
    return hashlib.blake2b(s.encode(), digest_size=8).digest()


def fresh_dir(path):
    shutil.rmtree(path, ignore_errors=True)
    os.makedirs(path)
    return path
