import re

from .runner import Spec

RET = re.compile(r"^r(\d+)\.(\d+)@(\d+)-(\d+)=(\S+)$")
CB = re.compile(r"^cb(\d+)@(\d+)-(\d+)$")


def parse_script(script):
    """-> list of programs, each a list of (at, op, arg)"""
    progs = []
    for p in script.split(" | ", 1)[1].split(" / "):
        calls = []
        for w in p.split():
            at, op = w.split(":", 1)
            arg = None
            if op[0] == "W":
                arg = int(op[1:])
            calls.append((int(at), op, arg))
        progs.append(calls)
    return progs


class C16(Spec):
    id = "C16"
    anchors = ["loom.WaitClose.C", "loom.WaitClose.Close", "loom.WaitClose.IsClosed", "loom.WaitClose.WaitUtil",
               "loom.WaitClose.checkInitSlow"]
    harness = "c16"
    tags = "faketime"
    driver = "drv_waitclose"
    monitor = True
    harness_env = {"GOMAXPROCS": "2"}
    harness_timeout = {"quick": 240, "thorough": 2400}
    rule = ("one case = one virtual-time scenario on a zero-value WaitClose: 2-4 goroutines issue scripted C / WaitUtil / "
            "IsClosed / Close(nil | callback that sleeps d and returns nil/error/panics) calls at scripted instants (many "
            "simultaneous); observed per call: call instant, return instant, value (channel identity global/own<k>), the "
            "callback executions, closedness of every returned channel after each Close return. monitor mode: the Lean "
            "driver searches the model's interleavings at each instant for an execution producing exactly the observation. "
            "plus stress lines (real goroutines, invariants counted in the harness) and an ORACLE-ONLY class `Xg<d>` "
            "(the callback ends its goroutine with runtime.Goexit; the Close call is recorded as `exited`; afterwards IsClosed, "
            "C(), WaitUtil and further Close calls with counting callbacks are judged by the oracle; the driver answers `ok oracle-only`). distinct by script line; non-trivial = "
            "a call is issued while a callback is running or at one of its end points, or two goroutines call at the same instant")
    trusted_base = ["Go runtime faketime clock (time advances only when every goroutine is blocked)",
                    "sync.Mutex / channel close / select / timer semantics as encoded in Got.Model.WaitClose (mutex = exclusive "
                    "holder, close wakes every receiver, select takes any ready branch, a ready select does not sleep)"]
    assumptions = ["the Lean model's callbacks return or panic; callbacks leaving through runtime.Goexit are not covered by the "
                   "theorems - that class is judged by the property oracle only",
                   "callbacks do not call back into the same WaitClose (Close would self-deadlock on its mutex)",
                   "WaitUtil with timeout <= 0 may return either value when the object is closed (timer and channel both ready)"]

    def oracle(self, script, impl):
        if impl.startswith("panic") or impl.startswith("<") or impl == "bad-op":
            return ("panic", "harness/real code panicked or did not answer: " + impl[:200])
        if script.startswith("stress"):
            kv = {}
            for w in impl.split():
                if "=" in w:
                    k, v = w.split("=", 1)
                    kv[k] = int(v)
            if kv.get("cb", 0) > 1:
                return ("two-callbacks", "stress: %d callbacks ran on one object" % kv["cb"])
            names = {"early": ("close-returned-early", "a Close call returned while the callback was still running"),
                     "open": ("channel-open-after-close", "a channel returned by C() was open after a Close call had returned"),
                     "nil": ("c-nil", "C() returned nil"),
                     "nonmono": ("isclosed-not-stable", "IsClosed() was false after a Close call had returned"),
                     "wubad": ("waitutil-wrong", "WaitUtil(positive timeout) returned false although Close had returned before the call "
                               "(or true with an open channel)")}
            for k, (sig, what) in names.items():
                if kv.get(k, 0) != 0:
                    return (sig, "stress: %s (%d times)" % (what, kv[k]))
            return None
        progs = parse_script(script)
        rets = {}
        cbs = []
        flags = {}
        for tok in impl.split():
            m = RET.match(tok)
            if m:
                g, i, c, r, v = int(m.group(1)), int(m.group(2)), int(m.group(3)), int(m.group(4)), m.group(5)
                rets[(g, i)] = (c, r, v)
                continue
            m = CB.match(tok)
            if m:
                cbs.append((int(m.group(1)), int(m.group(2)), int(m.group(3))))
                continue
            if "=" in tok:
                k, v = tok.split("=", 1)
                flags[k] = v
        for g, p in enumerate(progs):
            for i in range(len(p)):
                if (g, i) not in rets:
                    return ("hang", "call %d of goroutine %d did not return" % (i, g))
        if len(cbs) > 1:
            return ("two-callbacks", "%d callbacks were executed: %s" % (len(cbs), cbs))
        closes = [(rets[(g, i)], g, i) for g, p in enumerate(progs) for i, c in enumerate(p) if c[1][0] == "X"]
        if cbs:
            _, s, e = cbs[0]
            for (c, r, v), g, i in closes:
                if r < e:
                    return ("close-returned-early", "Close (goroutine %d, called at %d) returned at %d, before the callback finished at %d" % (g, c, r, e))
        if flags.get("probe") != "ok":
            return ("channel-open-after-close", "a channel returned by C() was still open after a Close call had returned")
        for (g, i), (c, r, v) in rets.items():
            if progs[g][i][1] == "C" and v == "nil":
                return ("c-nil", "C() returned nil (goroutine %d at %d)" % (g, c))
        if int(flags.get("chans", "0")) > 1:
            return ("two-channels", "C() handed out %s different channels of its own" % flags["chans"])
        first_ret = min((r for (c, r, v), _, _ in closes), default=None)
        iscs = sorted((rets[(g, i)][0], rets[(g, i)][2]) for g, p in enumerate(progs) for i, c in enumerate(p) if c[1] == "I")
        for (t, v) in iscs:
            if v == "0" and first_ret is not None and t > first_ret:
                return ("isclosed-not-stable", "IsClosed() = false at %d although a Close call returned at %d" % (t, first_ret))
            if v == "0" and any(v2 == "1" and t2 < t for (t2, v2) in iscs):
                return ("isclosed-not-stable", "IsClosed() = false at %d after it had been true" % t)
        if first_ret is not None and flags.get("isclosed") != "1":
            return ("isclosed-not-stable", "IsClosed() = false at the end although a Close call returned at %d" % first_ret)
        tc = min((c for (c, r, v), _, _ in closes), default=None)   # the first Close call performs the close at its call instant
        for g, p in enumerate(progs):
            for i, call in enumerate(p):
                if call[1][0] != "W":
                    continue
                c, r, v = rets[(g, i)]
                T = call[2]
                D = c + max(T, 0)
                if tc is None or tc > D:
                    if v != "0":
                        return ("waitutil-wrong", "WaitUtil(%d) called at %d returned true; the object was not closed by %d (close at %s)" % (T, c, D, tc))
                elif T > 0 and tc < D:
                    if v != "1":
                        return ("waitutil-wrong", "WaitUtil(%d) called at %d returned false; the close happened at %d, before the deadline %d" % (T, c, tc, D))
        return None

    def extra(self, ctx):
        # lines on which the monitor's search was cut off (depth fuel / state cap): never a reject, judged by the oracle only
        ex = ctx.get("ex") or {}
        model = ex.get("model") or []
        ctx["coverage"]["monitor_unchecked_lines"] = sum(1 for m in model if m.startswith("ok unchecked"))
        ctx["coverage"]["monitor_checked_lines"] = sum(1 for m in model if m == "ok")
        ctx["coverage"]["monitor_oracle_only_lines"] = sum(1 for m in model if m.startswith("ok oracle-only"))

    def nontrivial(self, script, impl):
        if script.startswith("stress"):
            return True
        calls = [int(m.group(3)) for m in (RET.match(t) for t in impl.split()) if m]
        if len(calls) != len(set(calls)):
            return True
        for tok in impl.split():
            m = CB.match(tok)
            if m:
                s, e = int(m.group(2)), int(m.group(3))
                if sum(1 for c in calls if s <= c <= e) > 1:
                    return True
        return False


SPEC = C16()
