"""C04 (cachex: concurrent Loads of a key share one load and agree on its result) + the observation parser and
result-timeline reconstruction shared by the three cachex checks (C04, C05, C06).

Script / observation formats: see harness/cmd/c04/cachehx/exec.go. The oracles below judge the
IMPLEMENTATION's observation line against the property text only; they know nothing of the Lean model.
Rule for all of them: when events coincide in virtual time in a way that makes the verdict depend on an
unobservable order (a tie), the check is skipped - never a false alarm.
"""
from .runner import Spec

CACHE_ANCHORS = ["cachex.cacheImpl.*", "cachex.Future.*", "cachex.NewCache", "cachex.newFuture",
                 "cachex.createArguments", "cachex.WithParallel", "cachex.WithExpire", "cachex.WithJobChanSize",
                 "loom.Sharding.GetShardingIndex", "loom.convertPowerOfTwo", "loom.fnv32"]

CACHE_TRUSTED = [
    "Go runtime fake clock (-tags faketime): virtual time advances only when every goroutine is blocked",
    "sync.Mutex critical section = one atomic step; channel = bounded FIFO; select picks any ready branch (modelled, not verified)",
    "monitor-mode driver explores the unobserved interleavings between two observed events; Unlock, wg.Done, job/tick reception "
    "and the sweep are executed eagerly in a fixed order (sound for acceptance: it only explores fewer model runs)",
    "finalizer-driven shutdown of the cache is out of scope",
]


class Scenario:
    """parsed script + observation of one `cfg` line"""

    def __init__(self, script, impl):
        self.ok = False
        self.hang = None
        head, _, body = script.partition(" | ")
        cfg = dict(kv.split("=") for kv in head.split()[1:])
        self.P, self.J, self.En, self.Ee = int(cfg["P"]), int(cfg["J"]), int(cfg["En"]), int(cfg["Ee"])
        self.calls = {}
        for seg in body.split(" ; "):
            w = seg.split()
            if not w:
                continue
            c = {"at": int(w[1]), "kind": w[2], "cid": int(w[3][1:]), "key": None, "pair": ("nil", "nil"), "dur": 0,
                 "of": None, "call_t": None, "ret_t": None, "ret": None}
            val, err = "nil", "nil"
            for a in w[4:]:
                if a.startswith("k="):
                    c["key"] = a[2:]
                elif a.startswith("of="):
                    c["of"] = int(a[4:])
                else:
                    if a == "loader=nil":
                        continue
                    if a.startswith("loader="):
                        a = a[7:]
                    for p in a.split(","):
                        if p.startswith("val:"):
                            val = p[4:]
                        elif p.startswith("err:"):
                            err = "e" + p[4:]
                        elif p.startswith("dur:"):
                            c["dur"] = int(p[4:])
            c["pair"] = (val, err)
            # contract violations (nil key, unsupported key type, nil loader): the call must panic and change nothing;
            # the property oracles ignore it as a Load/Get2/Set
            c["op"] = c["kind"]
            if c["kind"] in ("load", "get2", "set") and (c["key"] == "nil" or (c["key"] or "").startswith("f64:")
                                                          or (c["kind"] == "load" and "loader=nil" in w[4:])):
                c["kind"] = "panic"
            self.calls[c["cid"]] = c
        for c in self.calls.values():
            if c["kind"] == "fget" and c["of"] in self.calls:
                c["key"] = self.calls[c["of"]]["key"]
        segs = impl.split(" | ")
        if not segs or not segs[0].startswith("S="):
            return
        self.S = int(segs[0][2:])
        self.invs = {}    # n -> {cid, key, start, end, pair}
        self.events = []
        for seg in segs[1:]:
            w = seg.split()
            if w[0] == "end":
                self.end = int(w[1])
                continue
            if w[0] == "hang":
                self.hang = " ".join(w[2:])
                self.end = int(w[1])
                continue
            t = int(w[0])
            self.events.append((t, w[1:]))
            if w[1] == "call":
                self.calls[int(w[2][1:])]["call_t"] = t
            elif w[1] == "ret":
                c = self.calls[int(w[2][1:])]
                c["ret_t"] = t
                if len(w) == 4:
                    c["ret"] = w[3]            # fut#n | set | panic
                else:
                    c["ret"] = (w[3], w[4])
            elif w[1] == "lstart":
                self.invs[int(w[4][1:])] = {"cid": int(w[2][1:]), "key": w[3][2:], "start": t, "end": None, "pair": None}
            elif w[1] == "lend":
                inv = self.invs[int(w[2][1:])]
                inv["end"] = t
                inv["pair"] = (w[3], w[4])
        self.ok = True

    # ------------------------------------------------------------------ derived views
    def expiry(self, pair):
        return self.Ee if pair[1] != "nil" else self.En

    def sets(self, key):
        return [c for c in self.calls.values() if c["kind"] == "set" and c["key"] == key and c["call_t"] is not None]

    def loads(self, key):
        return [c for c in self.calls.values() if c["kind"] == "load" and c["key"] == key and c["call_t"] is not None]

    def inv_of_load(self, cid):
        for n, inv in self.invs.items():
            if inv["cid"] == cid:
                return inv
        return None

    def results(self, key):
        """list of results for the key: dict(u, pair, E, orphan, src) - loader completions and Sets.
        orphan = a Set on the key was issued between the creating Load's call and the completion (the loaded
        future is then no longer the key's current future)."""
        out = []
        sets = self.sets(key)
        for n, inv in self.invs.items():
            ld = self.calls[inv["cid"]]
            if ld["key"] != key or inv["end"] is None:
                continue
            orphan = any(ld["call_t"] <= s["call_t"] <= inv["end"] for s in sets)
            out.append({"u": inv["end"], "pair": inv["pair"], "E": self.expiry(inv["pair"]), "orphan": orphan, "src": "load c%d" % inv["cid"]})
        for s in sets:
            out.append({"u": s["call_t"], "pair": s["pair"], "E": self.expiry(s["pair"]), "orphan": False, "src": "set c%d" % s["cid"]})
        return out

    def tainted(self, key):
        """a Set coincides with a Load call or a loader completion of the key, or two results complete at the same
        instant: the key's 'current result' is then not determined by the observation"""
        sets = [s["call_t"] for s in self.sets(key)]
        marks = [c["call_t"] for c in self.loads(key)]
        us = []
        for inv in self.invs.values():
            if self.calls[inv["cid"]]["key"] == key:
                marks.append(inv["end"])
                marks.append(inv["start"])
                us.append(inv["end"])
        if any(s in marks for s in sets):
            return True
        allu = us + sets
        return len(set(allu)) != len(allu)

    def current(self, key, t):
        """the latest non-orphan result completed strictly before t (None if there is none)"""
        best = None
        for r in self.results(key):
            if not r["orphan"] and r["u"] is not None and r["u"] < t and (best is None or r["u"] > best["u"]):
                best = r
        return best

    def tie_at(self, key, t):
        """something of this key completes / is set exactly at t"""
        return any(r["u"] == t for r in self.results(key))

    def inflight(self, key, t, exclude):
        """a non-orphan load of the key created strictly before t and not completed before t.
        returns (definitely, maybe)"""
        sets = self.sets(key)
        definite = maybe = False
        for ld in self.loads(key):
            if ld["cid"] == exclude:
                continue
            inv = self.inv_of_load(ld["cid"])
            if inv is None:
                continue
            if ld["call_t"] > t or (inv["end"] is not None and inv["end"] < t):
                continue
            if any(ld["call_t"] <= s["call_t"] <= t for s in sets):
                continue  # displaced by Set
            if ld["call_t"] == t or inv["end"] == t:
                maybe = True
            else:
                definite = True
        return definite, maybe


def monitor_coverage(ctx):
    """evidence: how many scenario lines the monitor gave up on (time box) - those are judged by the oracle only"""
    ex = ctx.get("ex") or {}
    model = ex.get("model") or []
    unchecked = sum(1 for m in model if m.startswith("ok unchecked"))
    skipped = sum(1 for m in model if m.startswith("ok skipped"))
    ctx["coverage"]["monitor_unchecked_lines_oracle_only"] = unchecked
    ctx["coverage"]["lines_skipped_after_livelock"] = skipped


def judge_pure(script, impl):
    """shard / cpo2 / stress / procs lines. returns (handled, verdict)"""
    w = script.split()
    if not w:
        return True, None
    if w[0] == "procs":
        return True, None
    if w[0] == "shard":
        cnt = int(w[1])
        p = impl.split()
        if len(p) != 2 or p[0] != "idx":
            return True, ("shard-malformed", "GetShardingIndex did not return normally: " + impl[:120])
        if not (0 <= int(p[1]) < cnt):
            return True, ("shard-out-of-range", "index %s not in [0,%d) for key %s" % (p[1], cnt, w[2]))
        return True, None
    if w[0] == "cpo2":
        n = int(w[1])
        p = impl.split()
        if len(p) != 2 or p[0] != "r":
            return True, ("cpo2-malformed", impl[:120])
        r = int(p[1])
        if r < n or r & (r - 1) != 0 or (r > 1 and r // 2 >= n):
            return True, ("cpo2-wrong", "convertPowerOfTwo(%d) = %d is not the least power of two >= n" % (n, r))
        return True, None
    if w[0] == "stress":
        if impl.startswith("dup ") and impl != "dup 0":
            return True, ("duplicate-load-stress", "goroutines released together on one key: %s rounds with more than one loader "
                                                   "invocation or different futures" % impl.split()[1])
        return True, None
    return False, None


def c04_oracle(sc):
    # (a) the loader is called with the key of the Load that supplied it
    for n, inv in sorted(sc.invs.items()):
        want = sc.calls[inv["cid"]]["key"]
        if inv["key"] != want:
            return ("loader-called-with-other-key", "loader of Load c%d (key %s) was invoked with key %s" % (inv["cid"], want, inv["key"]))
    # (b) loader invocations of one key never overlap unless a Set intervened
    bykey = {}
    for n, inv in sorted(sc.invs.items()):
        bykey.setdefault(sc.calls[inv["cid"]]["key"], []).append(inv)
    for key, invs in bykey.items():
        sets = sc.sets(key)
        for i in range(len(invs)):
            for j in range(len(invs)):
                a, b = invs[i], invs[j]
                if a is b or a["start"] > b["start"] or (a["start"] == b["start"] and i > j):
                    continue
                aend = a["end"] if a["end"] is not None else 1 << 62
                if b["start"] < aend:  # b started while a was running
                    la = sc.calls[a["cid"]]["call_t"]
                    if not any(la <= s["call_t"] <= b["start"] for s in sets):
                        return ("overlapping-loaders", "key %s: loader of c%d ran [%d,%s) and loader of c%d started at %d, no Set in between"
                                % (key, a["cid"], a["start"], a["end"], b["cid"], b["start"]))
    # (c) a Load issued while a load of the key is in flight (no Set since) starts no loader
    for key in bykey:
        if sc.tainted(key):
            continue
        for ld in sc.loads(key):
            if sc.inv_of_load(ld["cid"]) is None:
                continue
            definite, maybe = sc.inflight(key, ld["call_t"], ld["cid"])
            if definite:
                return ("second-load-in-flight", "Load c%d of key %s at %d started a loader although a load of that key was in flight"
                        % (ld["cid"], key, ld["call_t"]))
    # (d) all Get2 calls on one future return the same pair, and it is a loader's pair for that key (or a Set pair)
    byfut = {}
    for c in sc.calls.values():
        if c["kind"] == "fget" and c["ret_t"] is not None:
            ld = sc.calls[c["of"]]
            byfut.setdefault(ld["ret"], []).append((c, ld))
    futkey = {}
    for c in sc.calls.values():
        if c["kind"] == "load" and c["ret_t"] is not None:
            k0 = futkey.setdefault(c["ret"], c["key"])
            if k0 != c["key"]:
                return ("future-shared-across-keys", "%s returned for key %s and for key %s" % (c["ret"], k0, c["key"]))
    for fut, lst in byfut.items():
        pairs = {c["ret"] for c, _ in lst}
        if len(pairs) > 1:
            return ("future-results-disagree", "Get2 on %s returned different pairs: %s" % (fut, sorted(pairs)))
    for c in sc.calls.values():
        if c["kind"] in ("fget", "get2") and c["ret_t"] is not None and isinstance(c["ret"], tuple):
            if c["kind"] == "get2" and c["ret"] == ("nil", "nil"):
                continue
            src = [r for r in sc.results(c["key"]) if r["pair"] == c["ret"] and r["u"] is not None and r["u"] <= c["ret_t"]]
            if not src:
                return ("result-from-nowhere", "c%d (%s, key %s) returned %s at %d: no loader invocation for that key and no Set produced this pair before"
                        % (c["cid"], c["kind"], c["key"], c["ret"], c["ret_t"]))
    return None


class C04(Spec):
    id = "C04"
    anchors = CACHE_ANCHORS
    harness = "c04"
    tags = "faketime"
    driver = "drv_cache"
    monitor = True
    # faketime + many Ps can live-lock inside the Go runtime's GC; the harness itself runs scenarios with 1 P (4 in marked phases)
    harness_env = {"GOMAXPROCS": "2"}
    shrink_sep = " ; "
    rule = ("one case = one timed scenario on a fresh cache under the Go fake clock (calls of Load/Get2/Set/Future.Get2 at scripted "
            "virtual instants, loaders with scripted durations/results; all ten key kinds; P,J,En,Ee varied), or one "
            "GetShardingIndex / convertPowerOfTwo call, or one stress line (real goroutines racing on one key). Compared "
            "(monitor mode): every call/return/loader event with its virtual time, identity of returned futures, returned pairs. "
            "non-trivial = at least two Loads of one key, or a pure line Round-2 classes: loaders running 20..100 x En (5..25 sweep ticks) with repeated Loads/Get2 of the key meanwhile; 130..1000 keys of one shard around a sweep tick. Round-4: hash-colliding string keys (distinct equal-length strings colliding under FNV-1a-32 / the repo's fnv32 / CRC-32 / low 16 bits, same shard, lengths 8..200) used as the keys of one story; dependent (nested) loaders.")
    trusted_base = CACHE_TRUSTED
    assumptions = ["loaders are functions of the scenario script (duration, result)", "Go int is 64 bit",
                   "convertPowerOfTwo: argument <= 2^62 (the Go loop diverges above)"]

    def oracle(self, script, impl):
        handled, v = judge_pure(script, impl)
        if handled:
            return v
        if impl.startswith("bad-script") or not script.startswith("cfg"):
            return None
        if impl.startswith("panic"):
            return ("panic", "the cache panicked: " + impl[:200])
        sc = Scenario(script, impl)
        if not sc.ok:
            return None
        return c04_oracle(sc)

    def extra(self, ctx):
        monitor_coverage(ctx)

    def nontrivial(self, script, impl):
        if not script.startswith("cfg"):
            return not script.startswith("procs")
        keys = [w[2:] for w in script.split() if w.startswith("k=")]
        loads = script.count(" load ")
        return loads >= 2 and len(set(keys)) < len(keys)


SPEC = C04()
