"""C12: decoding arbitrary bytes is total, in-bounds and allocation-bounded.
Oracle (independent of the Lean model), applied to every call of every script line:
  no panic; an error is one of the four documented ones; 0 <= Position() <= Len(); Position() never moves backwards
  and Len() never changes; a failed fixed-width read (bool/byte/int16/int32/int64) leaves Position() unchanged;
  the call did not allocate more than 2*(remaining input)+4096 bytes (flag measured by the harness);
  a successful ReadBytes/ReadString returns exactly the announced number of bytes taken from the input right after the
  prefix (prefix decoded here with an independent LEB128 decoder) and advances Position() by prefix + size;
  every string returned by ReadString still holds the same bytes after a later Tidy() / Reset()+Write() of the stream
  (harness marker alias=<op>; ReadBytes results are not judged);
  Read7BitEncodedInt consumes at most 5 bytes and does not accept a group whose fifth byte is > 15 (the documented
  ErrBad7BitInt case named in the property's mechanism anchors)."""
from .c11 import AST_TRUSTED, ast_tie
from .runner import Spec

ERRORS = {"NotEnoughData", "Bad7BitInt", "NegativeSize", "InvalidArgument"}
FIXED = {"bool": 1, "byte": 1, "i16": 2, "i32": 4, "i64": 8}


def unhex(s):
    return b"" if s == "-" else bytes.fromhex(s)


def unleb(data, pos):
    """independent decoder of the 7-bit length prefix (at most 5 bytes, fifth <= 15): (value as int32, new pos) or None"""
    val = 0
    for k in range(5):
        if pos >= len(data):
            return None
        b = data[pos]
        pos += 1
        if k == 4 and b > 15:
            return None
        val |= (b & 0x7F) << (7 * k)
        if b < 0x80:
            break
    val &= 0xFFFFFFFF
    return (val - (1 << 32) if val >= 1 << 31 else val), pos


def parse(script):
    head, body = script.split("|", 1)
    data = unhex(head.strip())
    steps = []
    for f in body.split(";"):
        w = f.split()
        if not w:
            continue
        k = None
        if w[0].startswith("@"):
            k = int(w[0][1:])
            w = w[1:]
        steps.append((k, w[0]))
    return data, steps


class C12(Spec):
    id = "C12"
    anchors = ["iox.OctetsStream.Read*", "iox.OctetsReader.Read*", "iox.OctetsStream.Len", "iox.OctetsStream.Position"]
    harness = "c12"
    driver = "drv_codec"
    driver_args = ["c12"]
    rule = ("one case = one byte string + a sequence of read calls (ReadBool/Byte/Int16/Int32/Int64, Read7BitEncodedInt, "
            "ReadBytes, ReadString, Read(n)) on the real stream, optionally repositioned; observed per call: ok value / error "
            "identity / panic, Position(), Len(), whether bytes allocated during the call exceed 2*remaining+4096. Generated: "
            "every byte string of length <= 2 x every call at position 0 (thorough: every position; plus all 2-byte prefixes x "
            "12 third bytes), continuation-bit patterns of 1..6 bytes over boundary digits, valid "
            "records of 65535/65536/65537/70000/2^20 bytes (thorough: more sizes) that are really present, at a non-zero offset and "
            "followed by further values, length-prefixed values with colliding contents (same hash "
            "collision sets as C11) decoded back-to-back by one reader, structure-aware random inputs (valid, "
            "truncated, over-long 7-bit groups, length prefixes above the remaining data up to 2^31-1, negative sizes, "
            "non-canonical prefixes), random call sequences on short biased inputs. distinct by script line; non-trivial = at "
            "least one call fails or reads a length-prefixed value")
    trusted_base = ["allocation meter: runtime.MemStats.TotalAlloc delta around the call (GOMAXPROCS=1, GC off); only the "
                    "yes/no figure `> 2*remaining+4096` is compared (size-class rounding makes exact byte counts unstable; the constant lets a fixed-size lazily allocated table pass, length-field-driven allocations are generated up to 2^31-1)",
                    "Go int (positions, lengths) modelled as unbounded naturals: streams shorter than 2^63 bytes",
                    "`make([]byte, n)` for n <= remaining input assumed not to fail",
                    AST_TRUSTED]
    assumptions = ["single goroutine uses the stream (the type is documented as not thread-safe)"]
    shrink_sep = " ; "

    def oracle(self, script, impl):
        if impl.startswith("panic") or impl.startswith("<"):
            return ("panic", "reader panicked, crashed the process or did not return: " + impl[:200])
        try:
            data, steps = parse(script)
        except ValueError:
            return ("malformed", "bad script line")
        impl, sep, alias = impl.rpartition(" | alias=")
        if not sep:
            return ("malformed", "no alias marker in harness output")
        outs = impl.split(" ; ")
        if len(outs) != len(steps):
            return ("malformed", "expected %d results, harness printed %d: %s" % (len(steps), len(outs), impl[:200]))
        pos = 0
        n = len(data)
        for (k, op), o in zip(steps, outs):
            if k is not None:
                pos = k
            f = o.split()
            if len(f) != 4:
                return ("malformed", "unexpected result " + o[:100])
            out, p, l, a = f[0], int(f[1][2:]), int(f[2][2:]), f[3][2:]
            where = "%s at position %d of %s" % (op, pos, (data.hex() or "-")[:80])
            if out == "panic":
                return ("panic", "panic in " + where)
            if l != n:
                return ("len-changed", "Len() = %d after %s, input has %d bytes" % (l, where, n))
            if not (0 <= p <= n):
                return ("out-of-bounds", "Position() = %d outside [0, %d] after %s" % (p, n, where))
            if p < pos:
                return ("out-of-bounds", "Position() moved backwards %d -> %d in %s" % (pos, p, where))
            if a != "0":
                return ("alloc-unbounded", "%s allocated more than 2*%d+4096 bytes" % (where, n - pos))
            ok = out.startswith("ok:")
            if not ok:
                if not out.startswith("err:") or out[4:] not in ERRORS:
                    return ("undocumented-error", "%s returned %s" % (where, out[:80]))
            if op in FIXED:
                if not ok and p != pos:
                    return ("failed-read-consumed", "failed %s moved Position() %d -> %d" % (where, pos, p))
            elif op == "v7":
                if p - pos > 5:
                    return ("wrong-consumption", "%s consumed %d > 5 bytes" % (where, p - pos))
                # a decoder that ACCEPTS a fifth byte > 15 (more than 32 bits) still "returns a value" — the property's
                # statement does not forbid that leniency, so it is left to the model correspondence (reported as
                # no-failing-input-found); only a value produced from a TRUNCATED group is a violation of the property
                fifth_over = (len(data) - pos >= 5 and all(data[pos + i] & 0x80 for i in range(4)) and data[pos + 4] > 15)
                if ok and unleb(data, pos) is None and not fifth_over:
                    return ("truncated-7bit-accepted", "%s returned %s for a truncated 7-bit group instead of "
                            "ErrNotEnoughData" % (where, out[:40]))
            elif op in ("bytes", "str"):
                r = unleb(data, pos)
                if ok and out.startswith("ok:oversize"):
                    return ("readbytes-inexact", "%s returned %s bytes, more than the whole input holds" % (where, out[11:]))
                if ok:
                    got = unhex(out[3:])
                    fifth_over = (len(data) - pos >= 5 and all(data[pos + i] & 0x80 for i in range(4)) and data[pos + 4] > 15)
                    if r is None and fifth_over:
                        pos = p  # lenient acceptance of an over-long prefix: left to the model correspondence (see v7)
                        continue
                    if r is None or r[0] < 0:
                        return ("readbytes-inexact", "%s succeeded on a malformed/negative prefix" % where)
                    size, q = r
                    if got != data[q:q + size] or len(got) != size or p != q + size:
                        return ("readbytes-inexact", "%s announced %d bytes at offset %d, returned %d bytes %s, Position() %d" % (
                            where, size, q, len(got), got.hex()[:60], p))
            elif op.startswith("raw"):
                if ok:
                    cnt, _, hx = out[3:].partition(":")
                    if not cnt.isdigit() or p != pos + int(cnt) or unhex(hx) != data[pos:p]:
                        return ("read-inexact", "%s returned count %s data %s, Position() %d" % (where, cnt, hx[:60], p))
            pos = p
        if alias.startswith("tidy"):
            return ("tidy-not-transparent", "a Tidy() inserted before an op of the decoding case on input %s is not transparent to the reader "
                    "(cursor outside the data, unread bytes changed, or the following reads differ): %s" % ((data.hex() or "-")[:80], alias))
        if alias != "-":
            which = steps[int(alias)][1] + " (op %s)" % alias if alias.isdigit() and int(alias) < len(steps) else alias
            return ("string-result-aliases-buffer", "the string returned by %s on input %s no longer holds the announced bytes after "
                    "the stream was compacted (Tidy) or reused (Reset + Write): a Go string is immutable, the result must be a "
                    "private copy, not a view of the stream's buffer" % (which, (data.hex() or "-")[:80]))
        return None

    def extra(self, ctx):
        """second correspondence: translation notes of the regenerated Got/Generated/AstIox.lean + the MiniGoBytes
        interpreter on those terms (driver mode ast12) against the real code, line by line (see c11.ast_tie)"""
        ast_tie(self, ctx, "ast12")

    def nontrivial(self, script, impl):
        return "err:" in impl or " bytes" in script or " str" in script


SPEC = C12()
