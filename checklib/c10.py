import os
import re

from . import common as C
from .runner import Spec

T = 1_000_000_000


def parse(script):
    head, body = script.split(" | ", 1)
    hw = head.split()
    end = int(hw[2])
    queues = []
    for w in hw[4:]:
        f = w.split(":")
        queues.append((int(f[0]), int(f[1]), int(f[2]) if len(f) > 2 else None))
    reqs = []
    for op in body.split(" ; "):
        w = op.split()
        if len(w) == 3:
            reqs.append((int(w[0]), int(w[1]), int(w[2])))
    return end, queues, reqs


class C10(Spec):
    id = "C10"
    anchors = ["taskx.delayedQueue.*", "taskx.newDelayedQueue", "taskx.newTaskDelayed", "taskx.taskDelayed.*",
               "taskx.Queue.SendDelayed", "taskx.Queue.SendCallback", "std.sorter.*", "std.PriorityQueue.*", "std.NewPriorityQueue"]
    harness = "c10"
    tags = "faketime"
    driver = "drv_delayed"
    monitor = True
    harness_env = {"GOMAXPROCS": "1"}
    shrink_sep = " ; "
    rule = ("one case = one timed scenario on the process-wide delayed queue under the Go runtime's virtual clock (ticks at whole "
            "virtual seconds): a multiset of (target queue, delay, send instant) requests issued by one sequential sender; instants "
            "biased to tick phases 0, 1 ns, T/2, T-1 ns; delays 0, 1, T-1, T, T+1, negative, equal deadlines from a small pool, "
            "deadlines exactly on ticks; classes with > 32 and > 128 outstanding requests; a class with tiny target queues whose "
            "consumer starts late (loop blocked); a class in which target queues get closed while delayed tasks for them are pending, "
            "mixed with open queues' tasks due in the same tick. compared exactly: per queue the arrival sequence (request, virtual instant). The "
            "driver explores all executions of Got.Model.Delayed (forking where the loop's select has both a tick and a request "
            "ready) and the observation must be one of the outcomes. non-trivial = at least two requests on one queue or a request "
            "issued exactly at a tick")
    trusted_base = ["Go channel / select / time.Ticker semantics as encoded in Got.Model.Delayed (ticker channel holds one tick, "
                    "further ticks are dropped; select picks any ready case)",
                    "Go runtime faketime clock (time advances only when every goroutine is blocked = the model's maximal progress)",
                    "container/heap under std.PriorityQueue: not trusted by contract — the model has its own transcription (DelayedHeap), and "
                    "the library source ($GOROOT/src/container/heap/heap.go) is re-translated every run (tools/srcfacts/minigo_heap.go -> "
                    "Got/Generated/AstContainerHeap.lean) and proved to compute DelayedHeap.push/pop (C10_translated_source_*); trusted there: "
                    "the translator, the MiniGoHeap interpreter and that std's `sorter` is the usual slice-backed heap.Interface "
                    "(the interpreted terms are compared with the running library on every case of the C20 correspondence)"]
    assumptions = ["handlers are non-nil", "never-early/once hold for all queues; lateness, order and no-loss are claimed for queues that are never closed",
                   "deadline order is claimed for delays >= 0 and while the loop was never blocked on a full target queue"]

    def oracle(self, script, impl):
        if impl.startswith("panic") or impl.startswith("<"):
            return ("panic", "harness panicked or hung: " + impl[:200])
        if " | " not in script:
            return None
        try:
            end, queues, reqs = parse(script)
        except (ValueError, IndexError):
            return ("malformed", "bad script")
        n = len(reqs)
        # a queue that gets closed never blocks the loop once closed, but it may before: it has to be roomy as well.
        # Its own tasks may be consumed by the closeChan branch: for them only never-early / once are checked.
        roomy = all(cap >= n + 1 and st == 0 for cap, st, cl in queues)
        closing = [cl is not None for cap, st, cl in queues]
        secs = impl.split(" | ")
        if len(secs) != len(queues) + 1:
            return ("malformed", "unexpected harness output: " + impl[:200])
        seen = {}
        for qi, sec in enumerate(secs[:-1]):
            w = sec.split()
            if not w or w[0] != "Q%d" % qi:
                return ("malformed", "unexpected harness output: " + impl[:200])
            prev = None
            all_nonneg = all(d >= 0 for (q, d, t) in reqs if q == qi)
            for a in w[1:]:
                i, at = a.split("@")
                i, at = int(i), int(at)
                if i >= n:
                    return ("malformed", "unknown request index")
                q, d, t = reqs[i]
                if i in seen:
                    return ("twice", "request #%d (queue %d, sent %d, delay %d) arrived twice: at %d and at %d" % (i, q, t, d, seen[i], at))
                seen[i] = at
                if q != qi:
                    return ("wrong-queue", "request #%d for queue %d arrived on queue %d" % (i, q, qi))
                dl = t + d
                if at < dl:
                    return ("early", "request #%d sent at %d with delay %d arrived at %d, %d ns before its deadline %d" % (i, t, d, at, dl - at, dl))
                if roomy and not closing[qi]:
                    ref = max(dl, t)
                    tie = (t % T == 0 and d <= 0)
                    if at > ref + T or (at == ref + T and not tie):
                        return ("late", "request #%d sent at %d with delay %d arrived at %d = deadline + %d ns (>= one tick)" % (i, t, d, at, at - ref))
                if roomy and all_nonneg and not closing[qi]:
                    if prev is not None and dl < prev[1]:
                        return ("order", "queue %d: request #%d (deadline %d) arrived after #%d (deadline %d)" % (qi, i, dl, prev[0], prev[1]))
                    prev = (i, dl)
        for i in range(n):
            if i not in seen:
                q, d, t = reqs[i]
                if closing[q]:
                    continue
                if max(t + d, t) + 3 * T <= end:
                    return ("lost", "request #%d (queue %d, sent %d, delay %d) never arrived (observed until %d)" % (i, q, t, d, end))
        return None

    def extra(self, ctx):
        """count the lines the monitor did not judge: `ok unchecked …` (an exploration / search limit of the driver was
        reached — such a line is never rejected, only the oracle judged it) and `ok oracle-only` (stress lines)"""
        ex = ctx.get("ex") or {}
        model = ex.get("model") or []
        ctx["coverage"]["monitor_unchecked_lines"] = sum(1 for m in model if m.startswith("ok unchecked"))
        ctx["coverage"]["monitor_oracle_only_lines"] = sum(1 for m in model if m.startswith("ok oracle-only"))
        ctx["coverage"]["monitor_tie_order_lines"] = sum(1 for m in model if m.startswith("ok tie-order"))
        # translator tie of container/heap: every function must have been accepted by the translator
        notes = {}
        gen = os.path.join(C.LEAN, "Got", "Generated", "AstContainerHeap.lean")
        if os.path.exists(gen):
            for m in re.finditer(r'^def (\w+)Note : String := "((?:[^"\\]|\\.)*)"', open(gen).read(), re.M):
                notes[m.group(1)] = m.group(2)
        bad = {f: notes.get(f, "<no translation>") for f in ("h_up", "h_down", "h_Init", "h_Push", "h_Pop", "h_Remove", "h_Fix")
               if notes.get(f) != "ok"}
        ctx["coverage"]["translation_notes"] = "ok" if not bad else bad
        if bad:
            ctx["broken"].append({"layer": "L2", "what": "translator: container/heap no longer inside the MiniGoHeap fragment: %s" % bad})

    def nontrivial(self, script, impl):
        try:
            _, queues, reqs = parse(script)
        except (ValueError, IndexError):
            return False
        if any(cl is not None for (_, _, cl) in queues):
            return True
        if any(t % T == 0 for (_, _, t) in reqs):
            return True
        per = {}
        for q, _, _ in reqs:
            per[q] = per.get(q, 0) + 1
        return any(v >= 2 for v in per.values())


SPEC = C10()
