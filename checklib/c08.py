"""C08 — ants: at most `size` handlers run at once and timeouts bound the wait; busy only if the queue was full.
Same harness and model as C07 (one scenario line serves both); only the oracle differs."""
import os
import subprocess

from . import common as C
from .c07 import AntsSpec, parse_script, parse_obs

STRESS_BOX_S = 60   # real-time limit of the separate stress process

KNOWN_SIG = "rt-bound-exceeded-while-inner-worker-clogged-by-ctx-ignoring-handler"


class C08(AntsSpec):
    id = "C08"
    # same harness source as C07 (harness/cmd/c08/*.go are symlinks to ../c07/*.go); a separate binary name keeps
    # concurrently running C07 and C08 checks from deleting each other's freshly built executable
    harness = "c08"
    rule = ("one case = one virtual-time scenario (see C07); judged: maximum number of handler invocations in progress "
            "(counter kept by the handlers), len(taskChan) read right before each Send vs. discard, and Get2 instant vs. "
            "first attempt's begin + R*T for tasks whose own handlers honour ctx; non-trivial = >= 2 handlers ran "
            "concurrently, a task was discarded, or a task timed out")
    assumptions = ["handlers do not panic", "the pool is not finalized while tasks are in flight",
                   "sends are issued at pairwise distinct scripted instants (len(taskChan) read before Send is then exact "
                   "except when a blocked sender enqueues at the same instant)",
                   "R*T bound: KNOWN FINDING — false when another task's handler ignores cancellation and occupies an inner worker"]

    def stress(self, ctx):
        """real-scheduler stress (oracle-only): fresh pools, K = N+2 senders released from a spin barrier, handlers count
        how many run at once. Runs in its OWN harness process (4 Ps, GC off) under a real-time limit; a timeout is counted
        as unchecked, never as a failure, and cannot disturb the virtual-time scenarios of the main run."""
        from . import runner
        binp = runner._BUILT.get((self.harness, self.tags))
        if not binp or not os.path.exists(binp):
            return
        pools = 1500 if ctx.get("tier") == "quick" else 12000
        d = os.path.join(C.BUILD, "run", self.id + "-stress")
        C.fresh_dir(d)
        sf = os.path.join(d, "stress.txt")
        lines = ["stress %d %d %d" % (n, n + 2, pools) for n in (1, 2, 3)]
        open(sf, "w").write("\n".join(lines) + "\n")
        cov = ctx["coverage"]
        cov["stress"] = {"lines": len(lines), "pools_per_line": pools, "timeout": False}
        try:
            subprocess.run([binp, "-seed", str(ctx.get("seed", 1)), "-tier", "quick", "-out", d, "-replay", sf],
                           env=dict(C.GOENV, GOMAXPROCS="1"), timeout=STRESS_BOX_S, stdout=subprocess.DEVNULL,
                           stderr=subprocess.DEVNULL)
        except subprocess.TimeoutExpired:
            cov["stress"]["timeout"] = True      # ok unchecked stress-timeout
            return
        impl = open(os.path.join(d, "impl.txt")).read().split("\n")[:-1] if os.path.exists(os.path.join(d, "impl.txt")) else []
        cov["stress"]["results"] = impl
        for sline, il in zip(lines, impl):
            r = self.oracle(sline, il)
            if r:
                ctx["concrete"].append({"line": 0, "script": sline, "impl": il, "model": "ok unchecked oracle-only",
                                        "signature": r[0], "what": r[1]})

    def extra(self, ctx):
        AntsSpec.extra(self, ctx)
        self.stress(ctx)
        # structural facts behind C08_max_concurrency: handlers are called only from the closure handed to the
        # inner-callback channel, and the package starts goroutines only in NewPool (two per unit of size)
        funcs = (ctx.get("facts") or {}).get("funcs", {})
        ants = {k: v for k, v in funcs.items() if k.startswith("ants.")}
        if not ants:
            return
        gos = {k: v.get("gos", 0) for k, v in ants.items() if v.get("gos", 0)}
        callers = {k: sum(1 for c in v.get("calls", []) if c.endswith(".handler") or c == "handler") for k, v in ants.items()}
        callers = {k: n for k, n in callers.items() if n}
        ctx["coverage"]["structural_facts"] = {"go_statements": gos, "handler_call_sites": callers}
        if gos != {"ants.NewPool": 2}:
            ctx["broken"].append({"layer": "L2", "what": "go statements in package ants are %s, the model assumes exactly the two in NewPool" % gos})
        if callers != {"ants.taskCallback.runTaskOnce": 1}:
            ctx["broken"].append({"layer": "L2", "what": "call sites of the task handler are %s, the model assumes the single one inside the inner closure of runTaskOnce" % callers})

    def oracle(self, script, impl):
        c = self.crashed(impl)
        if c:
            return c
        if script.startswith("stress "):
            if impl.startswith("stress timeout"):
                return None   # time-boxed by the harness: counted as unchecked, not a failure
            f = dict(x.split("=") for x in impl.split()[1:] if "=" in x)
            if not f:
                return ("malformed", "unexpected stress output: " + impl[:200])
            if int(f["over"]) > 0:
                return ("too-many-concurrent-handlers", "real-scheduler stress: on %s of %s fresh pools of size %s more than N handlers "
                        "ran at once (max %s) after %s senders were released from a barrier" % (f["over"], f["pools"], f["n"], f["max"], f["k"]))
            if int(f["bad"]) > 0:
                return ("stress-wrong-result", "real-scheduler stress: %s tasks did not return (1, nil)" % f["bad"])
            return None
        sc = parse_script(script)
        po = parse_obs(impl)
        if po is None:
            return ("malformed", "unexpected harness output: " + impl[:200])
        obs, mx = po
        n = sc["n"]
        if len(obs) != len(sc["tasks"]):
            return ("malformed", "task count differs")
        if mx > n:
            return ("too-many-concurrent-handlers", "%d handler invocations in progress at once, pool size %d" % (mx, n))
        for k, (t, o) in enumerate(zip(sc["tasks"], obs)):
            if o["kind"] == "dis":
                if not t["discard"]:
                    return ("discard-without-option", "task %d rejected although discardOnBusy=false" % k)
                if o["len"] != n:
                    # exact tie: a sender that was blocked on the full queue got its slot at this very instant
                    # (a blocked / delayed sender, or another goroutine's Send at the same instant — the runtime chooses the order)
                    tie = any(j != k and o2["kind"] == "acc" and o2["ret"] == o["ret"] for j, o2 in enumerate(obs))
                    if not tie:
                        return ("discard-while-queue-not-full", "task %d rejected as busy at %d with len(taskChan)=%d, cap=%d" % (
                            k, o["ret"], o["len"], n))
        for k, (t, o) in enumerate(zip(sc["tasks"], obs)):
            for iv in o["invs"]:
                if iv["begin"] > iv["start"]:
                    return ("timeout-not-in-effect", "task %d: the handler's ctx deadline %d is later than its start %d + the timeout "
                            "in effect %d (option list %s)" % (k, iv["begin"] + t["teff"], iv["start"], t["teff"], t["opts"]))
        if sc["parks"]:
            return None  # parked goroutines are delayed by the test itself: the timing bound says nothing
        for k, (t, o) in enumerate(zip(sc["tasks"], obs)):
            if o["kind"] != "acc" or o["get"] is None or not o["invs"]:
                continue
            if not all(b["hon"] for b in t["behs"][:t["reff"]]):
                continue
            pick = min(i["begin"] for i in o["invs"])
            done = o["get"][1]
            bound = pick + t["reff"] * t["teff"]
            if done <= bound:
                continue
            clog = False
            for j, (t2, o2) in enumerate(zip(sc["tasks"], obs)):
                if j == k:
                    continue
                for iv in o2["invs"]:
                    over_from = iv["begin"] + t2["teff"]     # the attempt this handler belongs to is over from here on
                    end = iv["end"] if iv["end"] is not None else 1 << 62
                    if end > over_from and max(over_from, iv["start"]) < done and end > pick:
                        clog = True
            what = "task %d (all handlers honour ctx): picked at %d, Get2 unblocked at %d > pick + R*T = %d" % (k, pick, done, bound)
            if clog:
                return (KNOWN_SIG, what + " while another task's handler kept an inner worker busy after its own attempt was over")
            return ("rt-bound-exceeded", what)
        return None

    def nontrivial(self, script, impl):
        if script.startswith("stress "):
            return True
        po = parse_obs(impl)
        if po is None:
            return False
        return po[1] >= 2 or any(o["kind"] == "dis" or (o["get"] and o["get"][0][1] == "DE") for o in po[0])


SPEC = C08()
