// Package csched: a cooperative scheduler for step-by-step control of goroutines running real
// code that was built with `-tags verif`. The repo's verifYield hook (loom.VerifHook / ants.VerifHook)
// is pointed at (*Sched).Hook; a controlled goroutine ("thread") parks in the hook BEFORE each
// shared-memory access until the scheduler grants it one step. Exactly one thread runs at a time,
// so a schedule (list of thread ids) determines the execution.
package csched

import (
	"runtime"
	"sync"
	"time"
	"unsafe"
)

// goid parses the current goroutine's id from its stack header ("goroutine 123 [running]:").
func goid() uint64 {
	var buf [64]byte
	n := runtime.Stack(buf[:], false)
	var id uint64
	for _, c := range buf[len("goroutine "):n] {
		if c < '0' || c > '9' {
			break
		}
		id = id*10 + uint64(c-'0')
	}
	return id
}

type Event struct {
	Tid     int
	Site    int            // hook site the thread is parked at (0 when Done/Blocked)
	Ptr     unsafe.Pointer // address about to be accessed
	Done    bool           // the thread's body returned
	Blocked bool           // the thread did not reach a yield point or return within the timeout
}

type thread struct {
	grant   chan struct{}
	at      chan Event
	pending Event
	started bool
	done    bool
	blocked bool
}

type Sched struct {
	th      []*thread
	mu      sync.Mutex
	gids    map[uint64]int // goroutine id -> thread id; goroutines not in the map pass through the hook
	Timeout time.Duration
	Steps   int
}

func New(n int) *Sched {
	s := &Sched{gids: map[uint64]int{}, Timeout: 2 * time.Second}
	for i := 0; i < n; i++ {
		s.th = append(s.th, &thread{grant: make(chan struct{}), at: make(chan Event, 1)})
	}
	return s
}

// Hook is what the repo's VerifHook variable must point to.
func (s *Sched) Hook(site int, p unsafe.Pointer) {
	s.mu.Lock()
	tid, ok := s.gids[goid()]
	s.mu.Unlock()
	if !ok {
		return // not a controlled goroutine (set-up code, the repo's own background goroutines)
	}
	t := s.th[tid]
	t.at <- Event{Tid: tid, Site: site, Ptr: p}
	<-t.grant
}

// HookNoPtr adapts hooks without a pointer argument (ants).
func (s *Sched) HookNoPtr(site int) { s.Hook(site, nil) }

func (s *Sched) wait(tid int) Event {
	t := s.th[tid]
	var ev Event
	if s.Timeout > 0 {
		tm := time.NewTimer(s.Timeout)
		select {
		case ev = <-t.at:
			tm.Stop()
		case <-tm.C:
			ev = Event{Tid: tid, Blocked: true}
			t.blocked = true
		}
	} else {
		ev = <-t.at
	}
	if ev.Done {
		t.done = true
	}
	t.pending = ev
	return ev
}

// Start launches body as thread tid and runs it up to its first yield point (or completion).
func (s *Sched) Start(tid int, body func()) Event {
	t := s.th[tid]
	t.started = true
	reg := make(chan struct{})
	go func() {
		s.mu.Lock()
		s.gids[goid()] = tid
		s.mu.Unlock()
		close(reg)
		body()
		t.at <- Event{Tid: tid, Done: true}
	}()
	<-reg
	return s.wait(tid)
}

// Step lets thread tid perform the access it is parked before and run to its next yield point.
// It returns the new pending event of that thread.
func (s *Sched) Step(tid int) Event {
	t := s.th[tid]
	if !t.started || t.done || t.blocked {
		return Event{Tid: tid, Done: t.done, Blocked: t.blocked}
	}
	s.Steps++
	t.grant <- struct{}{}
	return s.wait(tid)
}

// Pending is the yield point thread tid is parked at.
func (s *Sched) Pending(tid int) Event { return s.th[tid].pending }

// Live reports whether the thread has been started and has neither finished nor blocked.
func (s *Sched) Live(tid int) bool {
	t := s.th[tid]
	return t.started && !t.done && !t.blocked
}

// Recheck polls a thread that was reported Blocked (it may have become unblocked by another thread's step).
func (s *Sched) Recheck(tid int) Event {
	t := s.th[tid]
	if !t.blocked {
		return t.pending
	}
	select {
	case ev := <-t.at:
		t.blocked = false
		if ev.Done {
			t.done = true
		}
		t.pending = ev
		return ev
	default:
		return t.pending
	}
}

// Drain runs every live thread to completion in round-robin order (at most max steps); used to clean up.
func (s *Sched) Drain(max int) bool {
	for k := 0; k < max; k++ {
		any := false
		for i := range s.th {
			if s.Live(i) {
				s.Step(i)
				any = true
			}
		}
		if !any {
			return true
		}
	}
	return false
}
