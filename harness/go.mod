module verif/harness

go 1.22

require github.com/lixianmin/got v0.0.0

replace github.com/lixianmin/got => /repo
