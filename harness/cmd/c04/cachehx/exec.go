// Package cachehx: ONE virtual-time (faketime) harness for the cachex properties C04, C05, C06.
//
// script line (one self-contained scenario):
//
//	cfg P=1 J=1 En=2000000 Ee=1000000 | at 0 load c0 k=i:1 loader=dur:3000000,val:7 ; at 5 get2 c1 k=i:1 ;
//	    at 7 set c2 k=i:1 val:5 ; at 9 fget c3 of=c0
//
// observation line (times in ns relative to the creation of the cache):
//
//	S=16 | 0 call c0 | 0 ret c0 fut#0 | 0 lstart c0 k=i:1 #0 | 3000000 lend #0 7 nil | 9 ret c3 7 nil | end 12
//
// further line kinds:  shard <count> <key> -> idx <n> ;  cpo2 <n> -> r <n> ;  stress g=<n> rounds=<r> -> dup <n>
package cachehx

import (
	"encoding/hex"
	"errors"
	"fmt"
	"runtime"
	"runtime/debug"
	"sort"
	"strconv"
	"strings"
	"sync"
	"sync/atomic"
	"time"

	"github.com/lixianmin/got/cachex"
	"github.com/lixianmin/got/loom"
	"verif/harness/hx"
)

type call struct {
	at     int64
	cid    int
	kind   string // load get2 set fget
	key    any
	dur    int64
	hasVal bool
	val    int
	hasErr bool
	errn   int
	of     int
	in        int  // >= 0: the call is issued from inside the loader of Load call c<in> (dependent loads)
	keyGiven  bool // k= present (the key itself may be nil: contract violation)
	nilLoader bool // loader=nil (contract violation)
}

func parseKey(s string) (any, bool) {
	i := strings.IndexByte(s, ':')
	if i < 0 {
		return nil, false
	}
	ty, v := s[:i], s[i+1:]
	if ty == "s" {
		if v == "-" {
			return "", true
		}
		b, err := hex.DecodeString(v)
		if err != nil {
			return nil, false
		}
		return string(b), true
	}
	if strings.HasPrefix(ty, "u") {
		n, err := strconv.ParseUint(v, 10, 64)
		if err != nil {
			return nil, false
		}
		switch ty {
		case "u8":
			return uint8(n), true
		case "u16":
			return uint16(n), true
		case "u32":
			return uint32(n), true
		case "u64":
			return uint64(n), true
		}
		return nil, false
	}
	n, err := strconv.ParseInt(v, 10, 64)
	if err != nil {
		return nil, false
	}
	switch ty {
	case "i":
		return int(n), true
	case "i8":
		return int8(n), true
	case "i16":
		return int16(n), true
	case "i32":
		return int32(n), true
	case "i64":
		return int64(n), true
	}
	return nil, false
}

func showKey(k any) string {
	switch v := k.(type) {
	case int:
		return fmt.Sprintf("i:%d", v)
	case int8:
		return fmt.Sprintf("i8:%d", v)
	case int16:
		return fmt.Sprintf("i16:%d", v)
	case int32:
		return fmt.Sprintf("i32:%d", v)
	case int64:
		return fmt.Sprintf("i64:%d", v)
	case uint8:
		return fmt.Sprintf("u8:%d", v)
	case uint16:
		return fmt.Sprintf("u16:%d", v)
	case uint32:
		return fmt.Sprintf("u32:%d", v)
	case uint64:
		return fmt.Sprintf("u64:%d", v)
	case string:
		if v == "" {
			return "s:-"
		}
		return "s:" + hex.EncodeToString([]byte(v))
	}
	return fmt.Sprintf("?:%T", k)
}

func parseResParts(c *call, parts []string) {
	for _, p := range parts {
		if strings.HasPrefix(p, "val:") {
			c.val, _ = strconv.Atoi(p[4:])
			c.hasVal = true
		} else if strings.HasPrefix(p, "err:") {
			c.errn, _ = strconv.Atoi(p[4:])
			c.hasErr = true
		} else if strings.HasPrefix(p, "dur:") {
			c.dur, _ = strconv.ParseInt(p[4:], 10, 64)
		}
	}
}

func (c *call) pair() (any, error) {
	var v any
	var e error
	if c.hasVal {
		v = c.val
	}
	if c.hasErr {
		e = errors.New("e" + strconv.Itoa(c.errn))
	}
	return v, e
}

func showPair(v any, e error) string {
	vs, es := "nil", "nil"
	if v != nil {
		vs = fmt.Sprint(v)
	}
	if e != nil {
		es = e.Error()
	}
	return vs + " " + es
}

func parseCid(s string) (int, bool) {
	if !strings.HasPrefix(s, "c") {
		return 0, false
	}
	n, err := strconv.Atoi(s[1:])
	return n, err == nil
}

type scen struct {
	P, J   int
	En, Ee int64
	calls  []*call
}

func parseScen(line string) (*scen, string) {
	hb := strings.SplitN(line, " | ", 2)
	if len(hb) != 2 {
		return nil, "bad-script no-body"
	}
	sc := &scen{P: 1, J: 128, En: 1e9, Ee: 1e8}
	for _, w := range strings.Fields(hb[0])[1:] {
		kv := strings.SplitN(w, "=", 2)
		if len(kv) != 2 {
			return nil, "bad-script cfg"
		}
		n, err := strconv.ParseInt(kv[1], 10, 64)
		if err != nil {
			return nil, "bad-script cfg"
		}
		switch kv[0] {
		case "P":
			sc.P = int(n)
		case "J":
			sc.J = int(n)
		case "En":
			sc.En = n
		case "Ee":
			sc.Ee = n
		}
	}
	if sc.P < 1 || sc.J < 1 || sc.Ee < 1 || sc.En < sc.Ee {
		return nil, "bad-script cfg-range"
	}
	seen := map[int]*call{}
	for _, seg := range strings.Split(hb[1], " ; ") {
		w := strings.Fields(seg)
		if len(w) == 0 {
			continue
		}
		if len(w) < 4 || w[0] != "at" {
			return nil, "bad-script op"
		}
		at, err := strconv.ParseInt(w[1], 10, 64)
		cid, ok := parseCid(w[3])
		if err != nil || !ok || at < 0 {
			return nil, "bad-script op"
		}
		if seen[cid] != nil {
			return nil, "bad-script duplicate-client"
		}
		c := &call{at: at, cid: cid, kind: w[2], of: -1, in: -1}
		for _, a := range w[4:] {
			switch {
			case strings.HasPrefix(a, "k="):
				c.keyGiven = true
				if a[2:] == "nil" { // contract violation: nil key
					break
				}
				if strings.HasPrefix(a[2:], "f64:") { // contract violation: unsupported key type
					f, err := strconv.ParseFloat(a[6:], 64)
					if err != nil {
						return nil, "bad-script key"
					}
					c.key = f
					break
				}
				k, ok := parseKey(a[2:])
				if !ok {
					return nil, "bad-script key"
				}
				c.key = k
			case a == "loader=nil": // contract violation: nil loader
				c.nilLoader = true
			case strings.HasPrefix(a, "loader="):
				parseResParts(c, strings.Split(a[7:], ","))
			case strings.HasPrefix(a, "in="):
				o, ok := parseCid(a[3:])
				if !ok {
					return nil, "bad-script in"
				}
				c.in = o
			case strings.HasPrefix(a, "of="):
				o, ok := parseCid(a[3:])
				if !ok {
					return nil, "bad-script of"
				}
				c.of = o
			default:
				parseResParts(c, strings.Split(a, ","))
			}
		}
		switch c.kind {
		case "load", "get2", "set":
			if !c.keyGiven {
				return nil, "bad-script nokey"
			}
		case "fget":
		default:
			return nil, "bad-script kind"
		}
		seen[cid] = c
		sc.calls = append(sc.calls, c)
	}
	for _, c := range sc.calls {
		if c.in >= 0 {
			o := seen[c.in]
			if o == nil || o.kind != "load" || o.nilLoader || o.key == nil || o.in >= 0 {
				return nil, "bad-script nested-owner"
			}
		}
		if c.kind == "fget" {
			o := seen[c.of]
			if o == nil || o.kind != "load" || o.at > c.at || o.nilLoader || o.key == nil {
				return nil, "bad-script fget-target"
			}
		}
	}
	return sc, ""
}

var shardCount = loom.NewSharding().GetShardingCount()

// collect runs a garbage collection (so that the finalisers of dropped caches stop their tickers and workers) and
// waits until the finaliser goroutine is idle again. Observed in this sandbox: with the fake clock and GOMAXPROCS > 1 a
// collection can hang inside the runtime (gcMarkTermination / forEachP). Therefore collections only ever happen with
// one P: the automatic collector is switched off while GOMAXPROCS > 1 (setProcs) and collect() drops to one P.
func collect() {
	n := runtime.GOMAXPROCS(0)
	if n > 1 {
		runtime.GOMAXPROCS(1)
	}
	runtime.GC()
	time.Sleep(1)
	if n > 1 {
		runtime.GOMAXPROCS(n)
	}
}

func setProcs(n int) {
	if n > 1 {
		debug.SetGCPercent(-1)
	}
	runtime.GOMAXPROCS(n)
	if n <= 1 {
		debug.SetGCPercent(100)
	}
}

// LeakedGoroutines is reported in the statistics (worker goroutines of finalised caches must disappear).
var scenariosRun int

func runScenario(line string) string {
	sc, bad := parseScen(line)
	if sc == nil {
		return bad
	}
	scenariosRun++
	var mu sync.Mutex
	var events []string
	closed := false
	t0 := time.Now()
	logf := func(format string, a ...any) {
		// caller holds mu
		if closed {
			return
		}
		events = append(events, strconv.FormatInt(int64(time.Since(t0)), 10)+" "+fmt.Sprintf(format, a...))
	}
	cache := cachex.NewCache(cachex.WithParallel(sc.P), cachex.WithJobChanSize(sc.J),
		cachex.WithExpire(time.Duration(sc.En), time.Duration(sc.Ee)))

	futNo := map[*cachex.Future]int{}
	invocations := 0
	byCid := map[int]*call{}
	state := map[int]*int32{}
	futs := map[int]*cachex.Future{}
	ready := map[int]chan struct{}{}
	var horizon int64
	var totalDur int64
	for _, c := range sc.calls {
		byCid[c.cid] = c
		state[c.cid] = new(int32)
		if c.kind == "load" {
			ready[c.cid] = make(chan struct{})
			totalDur += c.dur
		}
		if c.at > horizon {
			horizon = c.at
		}
	}
	var futMu sync.Mutex
	nested := map[int][]*call{} // loader owner -> calls issued from inside that loader, in script order
	for _, c := range sc.calls {
		if c.in >= 0 {
			nested[c.in] = append(nested[c.in], c)
		}
	}
	// perform issues one call (from its own goroutine, or from inside a loader for nested calls)
	var perform func(c *call)
	perform = func(c *call) {
		if c.kind == "fget" { // Future.Get2 is issued at its instant, or as soon as its Load has handed out the future
			<-ready[c.of]
		}
		mu.Lock()
		logf("call c%d", c.cid)
		mu.Unlock()
		atomic.StoreInt32(state[c.cid], 1)
		// the documented assertion panics (nil key, nil loader, unsupported key type) are recovered by the caller,
		// who goes on using the cache
		defer func() {
			if r := recover(); r != nil {
				mu.Lock()
				logf("ret c%d panic", c.cid)
				mu.Unlock()
				atomic.StoreInt32(state[c.cid], 2)
			}
		}()
		switch c.kind {
		case "load":
			if c.nilLoader {
				f := cache.Load(c.key, nil)
				mu.Lock()
				n, ok := futNo[f]
				if !ok {
					n = len(futNo)
					futNo[f] = n
				}
				logf("ret c%d fut#%d", c.cid, n)
				mu.Unlock()
				break
			}
			f := cache.Load(c.key, func(key any) (any, error) {
				mu.Lock()
				n := invocations
				invocations++
				logf("lstart c%d k=%s #%d", c.cid, showKey(key), n)
				mu.Unlock()
				// a loader may itself consult the cache (dependent loads): its nested calls, in order, then its own work
				if ns := nested[c.cid]; len(ns) > 0 {
					for _, nc := range ns {
						perform(nc)
					}
					mu.Lock()
					logf("lmid #%d", n)
					mu.Unlock()
				}
				if c.dur > 0 {
					time.Sleep(time.Duration(c.dur))
				}
				v, e := c.pair()
				mu.Lock()
				logf("lend #%d %s", n, showPair(v, e))
				mu.Unlock()
				return v, e
			})
			mu.Lock()
			n, ok := futNo[f]
			if !ok {
				n = len(futNo)
				futNo[f] = n
			}
			logf("ret c%d fut#%d", c.cid, n)
			mu.Unlock()
			futMu.Lock()
			futs[c.cid] = f
			futMu.Unlock()
			close(ready[c.cid])
		case "get2":
			v, e := cache.Get2(c.key)
			mu.Lock()
			logf("ret c%d %s", c.cid, showPair(v, e))
			mu.Unlock()
		case "set":
			v, e := c.pair()
			cache.Set(c.key, v, e)
			mu.Lock()
			logf("ret c%d set", c.cid)
			mu.Unlock()
		case "fget":
			futMu.Lock()
			f := futs[c.of]
			futMu.Unlock()
			v, e := f.Get2()
			mu.Lock()
			logf("ret c%d %s", c.cid, showPair(v, e))
			mu.Unlock()
		}
		atomic.StoreInt32(state[c.cid], 2)
	}
	for _, c := range sc.calls {
		c := c
		if c.in >= 0 {
			continue // issued from inside the loader of c.in
		}
		go func() {
			if d := c.at - int64(time.Since(t0)); d > 0 {
				time.Sleep(time.Duration(d))
			}
			perform(c)
		}()
	}
	// The controller sleeps on the fake clock (this timer also keeps the runtime from declaring a deadlock when every
	// other goroutine is blocked for good). All loaders together need at most totalDur of worker time.
	time.Sleep(time.Duration(horizon + totalDur + 8*sc.En + 1000))
	// every future handed out must be resolved by now
	var unresolved sync.Map
	futMu.Lock()
	for cid, f := range futs {
		cid, f := cid, f
		unresolved.Store(cid, true)
		go func() {
			f.Get2()
			unresolved.Delete(cid)
		}()
	}
	futMu.Unlock()
	time.Sleep(1)
	var pending []string
	for _, c := range sc.calls {
		if atomic.LoadInt32(state[c.cid]) != 2 {
			pending = append(pending, fmt.Sprintf("c%d", c.cid))
		}
	}
	unresolved.Range(func(k, _ any) bool {
		pending = append(pending, fmt.Sprintf("future-of-c%d", k.(int)))
		return true
	})
	sort.Strings(pending)
	mu.Lock()
	closed = true
	out := append([]string{fmt.Sprintf("S=%d", shardCount)}, events...)
	end := int64(time.Since(t0))
	mu.Unlock()
	if len(pending) > 0 {
		out = append(out, fmt.Sprintf("hang %d %s", end, strings.Join(pending, ",")))
	} else {
		out = append(out, fmt.Sprintf("end %d", end))
	}
	// let the finaliser stop the ticker and the workers of this cache
	cache = nil
	collect()
	return strings.Join(out, " | ")
}

func runShard(w []string) string {
	if len(w) != 3 {
		return "bad-script"
	}
	n, err := strconv.Atoi(w[1])
	k, ok := parseKey(w[2])
	if err != nil || !ok {
		return "bad-script"
	}
	sh := loom.NewSharding(loom.WithSharingCount(n))
	idx, _ := sh.GetShardingIndex(k)
	if sh.GetShardingCount() != n {
		return fmt.Sprintf("count %d", sh.GetShardingCount())
	}
	return fmt.Sprintf("idx %d", idx)
}

func runCpo2(w []string) string {
	if len(w) != 2 {
		return "bad-script"
	}
	n, err := strconv.Atoi(w[1])
	if err != nil {
		return "bad-script"
	}
	return fmt.Sprintf("r %d", loom.NewSharding(loom.WithSharingCount(n)).GetShardingCount())
}

// runStress: real goroutines released together call Load on one key (fresh cache per round); a correct cache
// starts exactly one loader and hands the same future to everybody. Result: number of rounds with a duplicate.
func runStress(w []string) string {
	g, rounds := 8, 100
	for _, a := range w[1:] {
		if strings.HasPrefix(a, "g=") {
			g, _ = strconv.Atoi(a[2:])
		} else if strings.HasPrefix(a, "rounds=") {
			rounds, _ = strconv.Atoi(a[7:])
		}
	}
	if g > 3 {
		g = 3 // at most 4 Ps under the fake clock
	}
	old := runtime.GOMAXPROCS(0)
	if g+1 > old {
		setProcs(g + 1)
	}
	defer setProcs(old)
	dup := 0
	for r := 0; r < rounds; r++ {
		cache := cachex.NewCache(cachex.WithParallel(2), cachex.WithJobChanSize(64))
		var loads int32
		var gate int32
		var arrived int32
		var wg sync.WaitGroup
		res := make([]*cachex.Future, g)
		key := any(int(r))
		if r%3 == 1 {
			key = fmt.Sprintf("k%d", r)
		}
		for i := 0; i < g; i++ {
			i := i
			wg.Add(1)
			go func() {
				defer wg.Done()
				atomic.AddInt32(&arrived, 1)
				for atomic.LoadInt32(&gate) == 0 {
				}
				res[i] = cache.Load(key, func(any) (any, error) {
					atomic.AddInt32(&loads, 1)
					time.Sleep(1000)
					return 1, nil
				})
			}()
		}
		for atomic.LoadInt32(&arrived) != int32(g) {
			runtime.Gosched()
		}
		atomic.StoreInt32(&gate, 1)
		wg.Wait()
		for i := 0; i < g; i++ {
			res[i].Get2()
		}
		bad := atomic.LoadInt32(&loads) != 1
		for i := 1; i < g; i++ {
			if res[i] != res[0] {
				bad = true
			}
		}
		if bad {
			dup++
		}
		cache = nil
		if r%64 == 63 {
			collect()
		}
	}
	collect()
	return fmt.Sprintf("dup %d", dup)
}

func exec(c *hx.Ctx, line string) string {
	w := strings.Fields(line)
	if len(w) == 0 {
		return "bad-script"
	}
	switch w[0] {
	case "cfg":
		return runScenario(line)
	case "shard":
		return runShard(w)
	case "cpo2":
		return runCpo2(w)
	case "stress":
		return runStress(w)
	}
	return "bad-script"
}
