package cachehx

import (
	"fmt"
	"os"
	"runtime"
	"sort"
	"strconv"
	"strings"

	"verif/harness/hx"
)

// ---------------------------------------------------------------- scenario builder

type op struct {
	at   int64
	text string // without the "at <t>" prefix and with %c for the client id
}

type builder struct {
	P, J   int
	En, Ee int64
	ops    []op
	ncl    int
	atOf   map[int]int64
}

// fget: Future.Get2 on the future of Load c<of>, never scheduled before that Load
func (b *builder) fget(at int64, of int) int {
	if at < b.atOf[of] {
		at = b.atOf[of]
	}
	return b.add(at, "fget %%c of=c%d", of)
}

func (b *builder) add(at int64, format string, a ...any) int {
	if at < 0 {
		at = 0
	}
	cid := b.ncl
	b.ncl++
	if b.atOf == nil {
		b.atOf = map[int]int64{}
	}
	b.atOf[cid] = at
	b.ops = append(b.ops, op{at, strings.ReplaceAll(fmt.Sprintf(format, a...), "%c", "c"+strconv.Itoa(cid))})
	return cid
}

func (b *builder) line() string {
	if len(b.ops) == 0 { // never emit an empty scenario
		b.add(0, "get2 %%c k=i:1")
	}
	sort.SliceStable(b.ops, func(i, j int) bool { return b.ops[i].at < b.ops[j].at })
	parts := make([]string, len(b.ops))
	for i, o := range b.ops {
		parts[i] = fmt.Sprintf("at %d %s", o.at, o.text)
	}
	return fmt.Sprintf("cfg P=%d J=%d En=%d Ee=%d | %s", b.P, b.J, b.En, b.Ee, strings.Join(parts, " ; "))
}

var keyPool = []string{
	"i:1", "i64:1", "i8:1", "u8:1", "i:17", "i:-1", "i8:-3", "i16:300", "i16:-32768", "i32:-70000", "i32:2147483647",
	"i64:-9223372036854775808", "i64:4294967297", "u8:255", "u16:65535", "u32:4000000000",
	"u64:18446744073709551615", "u64:16", "s:616263", "s:-", "s:6b6579", "i:0", "i:16", "i:32",
}

func resText(r *hx.Rng, n int) (string, bool) {
	switch r.Intn(8) {
	case 0, 1:
		return fmt.Sprintf("err:%d", n), true
	case 2:
		if r.Intn(4) == 0 {
			return fmt.Sprintf("val:%d,err:%d", n, n), true
		}
		return fmt.Sprintf("val:%d", n), false
	case 3:
		if r.Intn(3) == 0 {
			return "nil", false
		}
		return fmt.Sprintf("val:%d", n), false
	}
	return fmt.Sprintf("val:%d", n), false
}

func loaderText(dur int64, res string) string {
	if res == "nil" {
		return fmt.Sprintf("loader=dur:%d", dur)
	}
	return fmt.Sprintf("loader=dur:%d,%s", dur, res)
}

func pickCfg(r *hx.Rng) *builder {
	b := &builder{}
	b.P = []int{1, 1, 2, 3}[r.Intn(4)]
	b.J = []int{1, 1, 2, 4, 128}[r.Intn(5)]
	b.En = []int64{1000000, 2000000, 1500000, 1000003, 4000000}[r.Intn(5)]
	switch r.Intn(5) {
	case 0:
		b.Ee = b.En
	case 1:
		b.Ee = b.En / 2
	case 2:
		b.Ee = b.En / 4
	case 3:
		b.Ee = b.En/3 + 1
	default:
		b.Ee = 250000
	}
	return b
}

func boundaryOffsets(E int64) []int64 { return []int64{E - 1, E, E + 1, 2*E - 1, 2 * E, 2*E + 1, E / 2} }

// random scenario: per key a "story" of results and calls placed around the E / 2E boundaries of the predicted
// completion times, around completion instants and around the sweep ticks (multiples of 4*En).
func genRandom(c *hx.Ctx) string {
	r := c.Rng
	b := pickCfg(r)
	nkeys := 1 + r.Intn(3)
	keys := make([]string, 0, nkeys)
	base := keyPool[r.Intn(len(keyPool))]
	keys = append(keys, base)
	for len(keys) < nkeys {
		k := keyPool[r.Intn(len(keyPool))]
		if r.Intn(3) == 0 && strings.HasPrefix(base, "i:") { // same number, different Go type: a different map key
			k = "i64:" + base[2:]
		}
		dup := false
		for _, x := range keys {
			dup = dup || x == k
		}
		if !dup {
			keys = append(keys, k)
		}
	}
	val := 1
	for _, k := range keys {
		t := int64(r.Intn(int(b.En)))
		if r.Intn(3) == 0 {
			t = 0
		}
		var u int64 // predicted completion time of the current result
		E := b.En
		var loads []int
		nops := 2 + r.Intn(5)
		for i := 0; i < nops; i++ {
			kind := r.Intn(10)
			if i == 0 && kind > 2 {
				kind = 0
			}
			switch {
			case kind <= 4: // load
				dur := []int64{0, 1, b.En / 2, b.En, b.Ee, 3 * b.En, 2*b.En + 1, int64(r.Intn(int(3 * b.En)))}[r.Intn(8)]
				res, isErr := resText(r, val)
				val++
				cid := b.add(t, "load %%c k=%s %s", k, loaderText(dur, res))
				loads = append(loads, cid)
				if i == 0 || t-u >= E { // will (probably) start a load
					u = t + dur
					E = b.En
					if isErr {
						E = b.Ee
					}
				}
				if r.Intn(2) == 0 {
					ft := t + []int64{0, 1, dur, dur + 1, dur / 2}[r.Intn(5)]
					b.fget(ft, cid)
				}
			case kind <= 7: // get2
				b.add(t, "get2 %%c k=%s", k)
			case kind == 8: // set
				res, isErr := resText(r, val)
				val++
				b.add(t, "set %%c k=%s %s", k, res)
				u = t
				E = b.En
				if isErr {
					E = b.Ee
				}
			default: // fget of an earlier load
				if len(loads) > 0 {
					b.fget(t, loads[r.Intn(len(loads))])
				} else {
					b.add(t, "get2 %%c k=%s", k)
				}
			}
			// next instant
			switch r.Intn(10) {
			case 0, 1, 2, 3, 4:
				offs := boundaryOffsets(E)
				nt := u + offs[r.Intn(len(offs))]
				if nt < t {
					nt = t + int64(r.Intn(int(b.En)))
				}
				t = nt
			case 5:
				t = u + []int64{-1, 0, 1}[r.Intn(3)] // around the completion
				if t < 0 {
					t = 0
				}
			case 6: // around a sweep tick
				tick := 4 * b.En * (1 + (t / (4 * b.En)))
				t = tick + []int64{-1, 0, 1, 2}[r.Intn(4)]
			case 7:
				// same instant (tie)
			default:
				t += int64(r.Intn(int(3 * b.En)))
			}
		}
	}
	return b.line()
}

// exhaustive boundary table: a result (value / error / Set) completed at u, one call (Load or Get2) at u+E-1 … u+2E+1,
// followed by probes that show which future was handed out and what a later caller sees.
func genBoundary(c *hx.Ctx, emit func(string, string)) {
	for _, En := range []int64{1000000, 3000000} {
		for _, Ee := range []int64{En, En / 4} {
			for _, src := range []string{"val", "err", "setval", "seterr"} {
				E := En
				if src == "err" || src == "seterr" {
					E = Ee
				}
				for _, off := range []int64{0, 1, E - 1, E, E + 1, 2*E - 1, 2 * E, 2*E + 1, 5 * E} {
					for _, kind := range []string{"load", "get2"} {
						for _, rd := range []int64{1, E, 3 * En} { // duration of the refresh
							if kind == "get2" && rd != 1 {
								continue
							}
							b := &builder{P: 1 + int(off+rd)%2, J: 1 + int(off)%3, En: En, Ee: Ee}
							k := keyPool[int(off+rd+En)%len(keyPool)]
							u := int64(700000)
							switch src {
							case "val":
								b.add(0, "load %%c k=%s loader=dur:%d,val:1", k, u)
							case "err":
								b.add(0, "load %%c k=%s loader=dur:%d,err:1", k, u)
							case "setval":
								b.add(u, "set %%c k=%s val:1", k)
							default:
								b.add(u, "set %%c k=%s err:1", k)
							}
							t := u + off
							if kind == "load" {
								cid := b.add(t, "load %%c k=%s loader=dur:%d,val:2", k, rd)
								b.fget(t, cid)
								// a second Load while the refresh is (perhaps) still running, and after it
								c2 := b.add(t+rd/2+1, "load %%c k=%s loader=dur:5,val:3", k)
								b.fget(t+rd/2+1, c2)
								b.add(t+rd/2+1, "get2 %%c k=%s", k)
								b.add(t+rd+1, "get2 %%c k=%s", k)
								// is the stale one still handed out at its own 2E boundary while the refresh runs?
								b.add(u+2*E-1, "get2 %%c k=%s", k)
								b.add(u+2*E, "get2 %%c k=%s", k)
								c3 := b.add(u+2*E, "load %%c k=%s loader=dur:5,val:4", k)
								b.fget(u+2*E, c3)
							} else {
								b.add(t, "get2 %%c k=%s", k)
								b.add(t+1, "get2 %%c k=%s", k)
							}
							emit(b.line(), "boundary_"+src+"_"+kind)
						}
					}
				}
			}
		}
	}
}

// sweep scenarios: a result that is merely expired (or still fresh) when the sweep tick at 4*En fires; the answers
// after the sweep must be the ones without a sweep.
func genSweep(c *hx.Ctx) string {
	r := c.Rng
	b := pickCfg(r)
	b.P = 1 + r.Intn(2)
	tick := 4 * b.En * int64(1+r.Intn(2))
	k := keyPool[r.Intn(len(keyPool))]
	isErr := r.Intn(3) == 0
	E := b.En
	res := "val:1"
	if isErr {
		E = b.Ee
		res = "err:1"
	}
	// age at the tick
	age := []int64{E, E + 1, 2*E - 1, 2*E - 2, E - 1, 2 * E, 0, E + E/2}[r.Intn(8)]
	u := tick - age
	if u < 0 {
		u = 0
	}
	if r.Intn(4) == 0 {
		b.add(u, "set %%c k=%s %s", k, res)
	} else {
		d := []int64{0, 1, b.En / 2, u}[r.Intn(4)]
		if d > u {
			d = u
		}
		b.add(u-d, "load %%c k=%s %s", k, loaderText(d, res))
	}
	// a second key that is rotted at the tick (the sweep has something to delete)
	if r.Intn(2) == 0 {
		b.add(0, "set %%c k=%s val:9", "i:77")
		b.add(tick+1, "get2 %%c k=%s", "i:77")
	}
	for i, n := 0, 1+r.Intn(4); i < n; i++ {
		t := tick + []int64{0, 1, 2, 2*E - age - 1, 2*E - age, 2*E - age + 1, int64(r.Intn(int(2 * b.En)))}[r.Intn(7)]
		if t < tick {
			t = tick + 1
		}
		if r.Intn(2) == 0 {
			b.add(t, "get2 %%c k=%s", k)
		} else {
			cid := b.add(t, "load %%c k=%s %s", k, loaderText([]int64{1, b.En, 3 * b.En}[r.Intn(3)], fmt.Sprintf("val:%d", 10+i)))
			b.fget(t+int64(r.Intn(2)), cid)
		}
	}
	return b.line()
}

// concurrency scenarios for C04: many Loads / Gets of few keys at (nearly) the same instants, long loaders, Set in between
func genShare(c *hx.Ctx) string {
	r := c.Rng
	b := pickCfg(r)
	nk := 1 + r.Intn(2)
	ks := []string{keyPool[r.Intn(len(keyPool))], "i64:1"}
	if ks[0] == ks[1] {
		ks[1] = "i:1"
	}
	val := 1
	var loads []int
	n := 4 + r.Intn(8)
	t := int64(0)
	for i := 0; i < n; i++ {
		k := ks[r.Intn(nk)]
		switch r.Intn(8) {
		case 0, 1, 2, 3:
			dur := []int64{b.En / 2, b.En, 1000, 2 * b.En, 3*b.En + 7}[r.Intn(5)]
			res, _ := resText(r, val)
			val++
			cid := b.add(t, "load %%c k=%s %s", k, loaderText(dur, res))
			loads = append(loads, cid)
		case 4:
			b.add(t, "get2 %%c k=%s", k)
		case 5:
			res, _ := resText(r, val)
			val++
			b.add(t, "set %%c k=%s %s", k, res)
		default:
			if len(loads) > 0 {
				b.fget(t, loads[r.Intn(len(loads))])
			}
		}
		switch r.Intn(4) {
		case 0:
		case 1:
			t++
		case 2:
			t += int64(r.Intn(int(b.En)))
		default:
			t += 1000
		}
	}
	for _, l := range loads {
		b.fget(t+int64(r.Intn(int(4*b.En))), l)
	}
	return b.line()
}

// C06: rounds of  P long "blocker" loads that keep every worker inside a loader while a sweep tick becomes due,
// then a burst of J+3 Loads over distinct keys of distinct shards (J fill the job queue, the others block in sendJob).
// When a worker returns to its select, both a job and the tick are ready.
func genBurst(c *hx.Ctx, rounds int) string {
	r := c.Rng
	b := &builder{}
	b.P = []int{1, 1, 2, 3}[r.Intn(4)]
	b.J = []int{1, 1, 2, 3}[r.Intn(4)]
	b.En = []int64{100000, 200000, 50000}[r.Intn(3)]
	b.Ee = b.En / 2
	period := 8 * b.En
	preload := r.Intn(2) == 0
	keyOf := func(i int) string {
		switch i % 5 {
		case 0:
			return fmt.Sprintf("i:%d", i)
		case 1:
			return fmt.Sprintf("i64:%d", i)
		case 2:
			return fmt.Sprintf("u16:%d", i)
		case 3:
			return fmt.Sprintf("i32:%d", i)
		}
		return fmt.Sprintf("u8:%d", i)
	}
	for rd := 0; rd < rounds; rd++ {
		base := int64(rd) * period
		for i := 0; i < b.P; i++ { // blockers: busy from 3En to 5En, the tick fires at 4En
			b.add(base+3*b.En+int64(i), "load %%c k=%s loader=dur:%d,val:%d", keyOf(i), 2*b.En, rd)
		}
		nb := b.J + 3
		if preload { // the burst keys were loaded 1.4 En ago: the burst Loads are REFRESHES of stale entries
			for i := 0; i < nb; i++ {
				b.add(base+2*b.En+b.En*6/10+int64(i), "load %%c k=%s loader=dur:0,val:%d", keyOf(b.P+i), 1000+rd)
			}
		}
		for i := 0; i < nb; i++ {
			t := base + 4*b.En + 1 + int64(i)
			dur := []int64{1000, 1, 0, 3000}[r.Intn(4)]
			cid := b.add(t, "load %%c k=%s loader=dur:%d,val:%d", keyOf(b.P+i), dur, rd)
			if r.Intn(2) == 0 {
				b.fget(t+int64(r.Intn(3)), cid)
			}
		}
		if r.Intn(3) == 0 {
			b.add(base+4*b.En+2, "get2 %%c k=%s", keyOf(b.P))
		}
		if r.Intn(4) == 0 {
			b.add(base+4*b.En+3, "set %%c k=%s val:5", keyOf(b.P+1))
		}
	}
	return b.line()
}


// ---------------------------------------------------------------- round-2 classes

// loads in flight across MANY sweep ticks: a loader running 20..100 x En (5..25 sweep ticks, consumed one by one by an
// idle worker when P >= 2) and repeated Loads / Get2 of the same key at later instants while it is still running,
// Future.Get2 on everything at the end. One load per key must stay the only one, whatever the number of sweeps.
func genLongLoad(c *hx.Ctx) string {
	r := c.Rng
	b := &builder{}
	b.P = []int{2, 2, 3, 2, 1}[r.Intn(5)]
	b.J = []int{1, 2, 4, 128}[r.Intn(4)]
	b.En = []int64{1000000, 2000000, 500000}[r.Intn(3)]
	b.Ee = b.En / int64(1+r.Intn(4))
	mult := []int64{20, 24, 33, 40, 100, 21}[r.Intn(6)]
	long := mult*b.En + int64(r.Intn(1000))
	k := keyPool[r.Intn(len(keyPool))]
	t0 := int64(r.Intn(int(b.En)))
	val := 1
	first := b.add(t0, "load %%c k=%s loader=dur:%d,val:%d", k, long, val)
	val++
	loads := []int{first}
	// later calls of the same key, most of them after the 5th .. 8th tick and before the loader returns
	n := 2 + r.Intn(5)
	used := map[int64]bool{t0: true}
	for i := 0; i < n; i++ {
		var t int64
		switch r.Intn(8) {
		case 0:
			t = t0 + long - 1
		case 1:
			t = t0 + long + 1 + int64(r.Intn(int(b.En)))
		case 2:
			t = t0 + int64(r.Intn(int(16*b.En))) // early: fewer than 5 ticks so far
		default:
			lo := 20 * b.En
			span := long - lo
			if span < b.En {
				span = b.En
			}
			t = lo + int64(r.Intn(int(span)))*4/5 + int64(r.Intn(1000)) + 7
		}
		for used[t] || t%(4*b.En) == 0 {
			t++
		}
		used[t] = true
		switch r.Intn(6) {
		case 0, 1, 2, 3:
			dur := []int64{1, 1000, b.En / 2, 2 * b.En}[r.Intn(4)]
			cid := b.add(t, "load %%c k=%s loader=dur:%d,val:%d", k, dur, val)
			val++
			loads = append(loads, cid)
		case 4:
			b.add(t, "get2 %%c k=%s", k)
		default:
			// another key keeps a worker busy for a while
			b.add(t, "load %%c k=%s loader=dur:%d,val:%d", "i:4242", []int64{b.En, 5 * b.En}[r.Intn(2)], 900+i)
		}
	}
	end := t0 + long + 3*b.En
	for i, l := range loads {
		b.fget(end+int64(i), l)
		if r.Intn(3) == 0 {
			b.fget(b.atOf[l]+1, l) // an early waiter
		}
	}
	return b.line()
}

func sameShardKey(r *hx.Rng, shard, j int) string {
	n := shard + j*shardCount
	switch j % 4 {
	case 0:
		return fmt.Sprintf("i:%d", n)
	case 1:
		return fmt.Sprintf("i64:%d", n)
	case 2:
		return fmt.Sprintf("u32:%d", n)
	}
	return fmt.Sprintf("i32:%d", n)
}

// MANY ENTRIES IN ONE SHARD, most of them rotted at the sweep tick (the sweep deletes n >= 128 entries of one shard),
// plus entries of the same shard that are merely stale / fresh / in flight at the tick and are queried right after
// it: the answers must be the ones without a sweep. All calls at distinct instants (the monitor's state set stays small).
func genManyRotted(c *hx.Ctx, n int) string {
	r := c.Rng
	b := &builder{}
	b.P = 1 + r.Intn(2)
	b.J = []int{1, 4, 128}[r.Intn(3)]
	b.En = []int64{1000000, 2000000}[r.Intn(2)]
	b.Ee = b.En / 2
	shard := r.Intn(shardCount)
	tick := 4 * b.En
	mix := r.Intn(4) == 0 // a quarter of the scenarios spread a third of the bulk over other shards
	t := int64(5)
	bulk := make([]string, 0, n)
	for j := 0; j < n; j++ {
		k := sameShardKey(r, shard, j+10)
		if mix && j%3 == 2 {
			k = fmt.Sprintf("i:%d", (shard+1+j%7)%shardCount+(j+10)*shardCount)
		}
		bulk = append(bulk, k)
		if r.Intn(10) < 3 {
			b.add(t, "set %%c k=%s val:%d", k, j)
		} else {
			b.add(t, "load %%c k=%s loader=dur:0,val:%d", k, j)
		}
		t += 2 + int64(r.Intn(3))
	}
	// entries of the same shard that must survive the sweep
	type probe struct {
		key string
		age int64
	}
	var probes []probe
	ages := []int64{b.En, b.En + 1, b.En + b.En/2, 2*b.En - 1, 2*b.En - 1000, b.En / 2, 1000}
	np := 1 + r.Intn(3)
	for i := 0; i < np; i++ {
		age := ages[r.Intn(len(ages))] + int64(i)*3
		if i == 0 { // always one in the stale window [E, 2E)
			age = ages[r.Intn(5)]
		}
		k := sameShardKey(r, shard, 1+i)
		at := tick - age
		if r.Intn(3) == 0 {
			b.add(at, "set %%c k=%s val:%d", k, 5000+i)
		} else {
			b.add(at, "load %%c k=%s loader=dur:0,val:%d", k, 5000+i)
		}
		probes = append(probes, probe{k, age})
	}
	if r.Intn(2) == 0 { // one load in flight across the tick
		b.add(tick-1000, "load %%c k=%s loader=dur:%d,val:7777", sameShardKey(r, shard, 5), 5000)
		probes = append(probes, probe{sameShardKey(r, shard, 5), 0})
	}
	q := tick + 1
	for _, p := range probes {
		b.add(q, "get2 %%c k=%s", p.key)
		q += 2
		cid := b.add(q, "load %%c k=%s loader=dur:%d,val:%d", p.key, []int64{1, 1000}[r.Intn(2)], 6000+int(q-tick))
		b.fget(q+1, cid)
		q += 3
		b.add(q+b.En/4, "get2 %%c k=%s", p.key)
	}
	// the rotted ones behave like absent ones
	for i := 0; i < 3; i++ {
		k := bulk[r.Intn(len(bulk))]
		b.add(q, "get2 %%c k=%s", k)
		q += 2
		if r.Intn(2) == 0 {
			cid := b.add(q, "load %%c k=%s loader=dur:1,val:%d", k, 8000+i)
			b.fget(q+1, cid)
			q += 3
		}
	}
	return b.line()
}

// MANY LIVE ENTRIES IN ONE SHARD at the sweep tick (n > 256 fresh or merely stale entries), then more traffic after
// the tick and across the next tick (where they are rotted and deleted): everything must still return and resolve.
func genManyLive(c *hx.Ctx, n int) string {
	r := c.Rng
	b := &builder{}
	b.P = 1 + r.Intn(2)
	b.J = []int{1, 4, 128}[r.Intn(3)]
	b.En = []int64{1000000, 2000000}[r.Intn(2)]
	b.Ee = b.En / 2
	shard := r.Intn(shardCount)
	tick := 4 * b.En
	stale := r.Intn(3) == 0 // bulk is stale (age in [E,2E)) instead of fresh at the tick
	start := tick - int64(n)*4 - 1000
	if stale {
		start = tick - b.En - b.En/2
	}
	mix := r.Intn(4) == 0
	t := start
	bulk := make([]string, 0, n)
	for j := 0; j < n; j++ {
		k := sameShardKey(r, shard, j+10)
		if mix && j%4 == 3 {
			k = fmt.Sprintf("i:%d", (shard+1+j%5)%shardCount+(j+10)*shardCount)
		}
		bulk = append(bulk, k)
		if r.Intn(10) < 2 {
			b.add(t, "set %%c k=%s val:%d", k, j)
		} else {
			b.add(t, "load %%c k=%s loader=dur:0,val:%d", k, j)
		}
		t += 2 + int64(r.Intn(2))
	}
	q := tick + 5
	for i := 0; i < 6; i++ {
		k := sameShardKey(r, shard, 2+i)
		if i%2 == 1 {
			k = bulk[r.Intn(len(bulk))]
		}
		cid := b.add(q, "load %%c k=%s loader=dur:%d,val:%d", k, []int64{0, 1000, b.En / 3}[r.Intn(3)], 9000+i)
		b.fget(q+1, cid)
		q += 4
		b.add(q, "get2 %%c k=%s", bulk[r.Intn(len(bulk))])
		q += 3 + int64(r.Intn(int(b.En/8)))
	}
	// after the second tick the bulk is rotted
	q = 2*tick + 3
	for i := 0; i < 3; i++ {
		k := bulk[r.Intn(len(bulk))]
		b.add(q, "get2 %%c k=%s", k)
		cid := b.add(q+2, "load %%c k=%s loader=dur:1,val:%d", k, 9500+i)
		b.fget(q+3, cid)
		q += 7
	}
	return b.line()
}

// ---------------------------------------------------------------- round-3 classes

// CONTRACT PANICS MUST NOT POISON THE CACHE: the documented assertion panics - Load with a nil loader (on a missing, a
// fresh, an expired, a loading key), Load/Get2/Set with a nil key or a key of an unsupported type - are recovered by
// the caller and FOLLOWED by ordinary traffic on the same key, on other keys of the same shard and on other shards.
// The panicking call changes nothing; every later call returns and answers as usual.
func genContract(c *hx.Ctx) string {
	r := c.Rng
	b := pickCfg(r)
	shard := r.Intn(shardCount)
	kMiss := sameShardKey(r, shard, 3)
	kFresh := sameShardKey(r, shard, 4)
	kStale := sameShardKey(r, shard, 5)
	kLoading := sameShardKey(r, shard, 6)
	kOther := fmt.Sprintf("i:%d", (shard+1)%shardCount+7*shardCount)
	// state before the violations
	b.add(0, "load %%c k=%s loader=dur:0,val:1", kStale) // completed at 0
	t := b.En + int64(r.Intn(int(b.En))) - 1              // kStale is stale (age in [E,2E)) from now on
	b.add(t-3, "load %%c k=%s loader=dur:0,val:2", kFresh)
	b.add(t-2, "load %%c k=%s loader=dur:%d,val:3", kLoading, 3*b.En)
	viol := []string{
		fmt.Sprintf("load %%c k=%s loader=nil", kMiss),
		fmt.Sprintf("load %%c k=%s loader=nil", kFresh),
		fmt.Sprintf("load %%c k=%s loader=nil", kStale),
		fmt.Sprintf("load %%c k=%s loader=nil", kLoading),
		"load %c k=nil loader=dur:1,val:9",
		"load %c k=nil loader=nil",
		"get2 %c k=nil",
		"set %c k=nil val:9",
		"load %c k=f64:1.5 loader=dur:1,val:9",
		"get2 %c k=f64:2.5",
		"set %c k=f64:3.5 val:9",
	}
	n := 1 + r.Intn(4)
	if r.Intn(3) == 0 { // always exercise the miss branch in a third of the scenarios
		b.add(t, "%s", viol[0])
		t += 1 + int64(r.Intn(3))
	}
	for i := 0; i < n; i++ {
		b.add(t, "%s", viol[r.Intn(len(viol))])
		t += int64(r.Intn(3)) // sometimes the same instant as the next call
	}
	// ordinary traffic afterwards: same keys, same shard, other shards
	t++
	keys := []string{kMiss, kFresh, kStale, kLoading, sameShardKey(r, shard, 8), kOther, keyPool[r.Intn(len(keyPool))]}
	m := 3 + r.Intn(6)
	for i := 0; i < m; i++ {
		k := keys[r.Intn(len(keys))]
		if i == 0 {
			k = kMiss
		}
		switch r.Intn(4) {
		case 0, 1:
			cid := b.add(t, "load %%c k=%s loader=dur:%d,val:%d", k, []int64{0, 1, 1000, b.En / 2}[r.Intn(4)], 100+i)
			b.fget(t+1+int64(r.Intn(int(b.En))), cid)
		case 2:
			b.add(t, "get2 %%c k=%s", k)
		default:
			b.add(t, "set %%c k=%s val:%d", k, 200+i)
		}
		t += 1 + int64(r.Intn(int(b.En/4)))
		if r.Intn(5) == 0 {
			b.add(t, "%s", viol[r.Intn(len(viol))])
			t++
		}
	}
	return b.line()
}

// calls exactly AT a sweep tick (tie with the sweep) on a key whose entry is rotted / stale / in flight at the tick,
// immediately followed by more Loads and Get2 of the same key: the new load must be shared and awaited.
func genTickTie(c *hx.Ctx) string {
	r := c.Rng
	b := pickCfg(r)
	b.P = 1 + r.Intn(3)
	tick := 4 * b.En * int64(1+r.Intn(2))
	k := keyPool[r.Intn(len(keyPool))]
	k2 := sameShardKey(r, r.Intn(shardCount), 2)
	// an entry that is rotted (or stale) at the tick
	age := []int64{2 * b.En, 3 * b.En, 2*b.En + 1, b.En + b.En/2, 4 * b.En}[r.Intn(5)]
	u := tick - age
	if u < 0 {
		u = 0
	}
	if r.Intn(2) == 0 {
		b.add(u, "set %%c k=%s val:1", k)
	} else {
		b.add(u, "load %%c k=%s loader=dur:0,val:1", k)
	}
	b.add(u+1, "set %%c k=%s val:2", k2)
	val := 10
	for _, dt := range []int64{0, 0, 1, 1, 2, int64(1 + r.Intn(1000))} {
		if r.Intn(4) == 0 {
			continue
		}
		kk := k
		if r.Intn(5) == 0 {
			kk = k2
		}
		switch r.Intn(3) {
		case 0, 1:
			cid := b.add(tick+dt, "load %%c k=%s loader=dur:%d,val:%d", kk, []int64{1000, b.En / 2, 5}[r.Intn(3)], val)
			val++
			b.fget(tick+dt+int64(r.Intn(2)), cid)
		default:
			b.add(tick+dt, "get2 %%c k=%s", kk)
		}
	}
	b.add(tick+b.En, "get2 %%c k=%s", k)
	return b.line()
}

// a key whose loader keeps failing: a chain of 5..9 consecutive error results, each refreshed by the first Load at its
// own boundary u+Ee (and probed at u+Ee-1, u+2Ee-1, u+2Ee); the error expiry must apply unchanged to every one of them.
func genErrorStreak(c *hx.Ctx) string {
	r := c.Rng
	b := pickCfg(r)
	b.P = 1 + r.Intn(2)
	if b.Ee < 1000 {
		b.Ee = 1000
	}
	k := keyPool[r.Intn(len(keyPool))]
	n := 5 + r.Intn(5)
	t := int64(r.Intn(1000))
	for i := 0; i < n; i++ {
		d := []int64{0, 1, 100}[r.Intn(3)]
		res := fmt.Sprintf("err:%d", i+1)
		if i == n-1 && r.Intn(2) == 0 {
			res = fmt.Sprintf("val:%d", i+1)
		}
		cid := b.add(t, "load %%c k=%s %s", k, loaderText(d, res))
		u := t + d
		if r.Intn(2) == 0 {
			b.fget(u+1, cid)
		}
		switch r.Intn(4) {
		case 0:
			b.add(u+b.Ee-1, "get2 %%c k=%s", k)
		case 1:
			b.add(u+b.Ee-1, "load %%c k=%s loader=dur:1,val:77", k) // fresh: must not load
		}
		// the next refresh: at the boundary, inside the stale window, or after the result is gone
		t = u + []int64{b.Ee, b.Ee, b.Ee + 1, 2*b.Ee - 1, 2 * b.Ee, 2*b.Ee + 5}[r.Intn(6)]
	}
	b.add(t+1, "get2 %%c k=%s", k)
	return b.line()
}

// ---------------------------------------------------------------- round-4 classes

// COLLIDING STRING KEYS: two or three distinct equal-length strings with the same 32-bit hash (and shard) used as keys
// of one story: both loaded, one loaded while the other is loading / fresh / stale, Set of one then Get2 of the other,
// refresh of one while the other is fresh. Each key has its own loader, value and future.
func genCollide(c *hx.Ctx) string {
	r := c.Rng
	cols := collidingKeys()
	if len(cols) == 0 {
		return genShare(c)
	}
	col := cols[r.Intn(len(cols))]
	c.Count("collide_" + col.kind)
	ks := col.keys
	b := pickCfg(r)
	val := 1
	var loads []int
	t := int64(r.Intn(1000))
	n := 4 + r.Intn(8)
	for i := 0; i < n; i++ {
		k := ks[r.Intn(len(ks))]
		if i < len(ks) {
			k = ks[i] // every key of the group is used
		}
		switch r.Intn(9) {
		case 0, 1, 2, 3:
			dur := []int64{0, 1000, b.En / 2, 2 * b.En}[r.Intn(4)]
			cid := b.add(t, "load %%c k=%s loader=dur:%d,val:%d", k, dur, val)
			val++
			loads = append(loads, cid)
			if r.Intn(2) == 0 {
				b.fget(t+dur+1, cid)
			}
		case 4, 5:
			b.add(t, "get2 %%c k=%s", k)
		case 6:
			b.add(t, "set %%c k=%s val:%d", k, val)
			val++
		default:
			if len(loads) > 0 {
				b.fget(t, loads[r.Intn(len(loads))])
			}
		}
		switch r.Intn(6) {
		case 0:
			t++
		case 1:
			t += 1000
		case 2:
			t += b.En + int64(r.Intn(int(b.En))) // the earlier results are stale now
		case 3:
			t += 2*b.En + 1
		default:
			t += int64(r.Intn(int(b.En)))
		}
	}
	for _, k := range ks {
		b.add(t+1, "get2 %%c k=%s", k)
		t += 2
	}
	for _, l := range loads {
		b.fget(t+int64(r.Intn(int(3*b.En))), l)
	}
	return b.line()
}

// NESTED (DEPENDENT) LOADERS: the loader of key A consults the cache for key B - Load(B) + Future.Get2 - before it
// returns. Legal, and live whenever another worker can run B's job: P >= 2 with B queued behind A while every
// worker is still busy (backlog), or any P when B is already resolved. Exactly one depending loader per scenario,
// all other loaders are leaves, so on a correct cache every call returns.
func genNested(c *hx.Ctx) string {
	r := c.Rng
	b := &builder{}
	b.P = []int{2, 2, 3, 1}[r.Intn(4)]
	b.J = []int{4, 8, 128}[r.Intn(3)]
	b.En = []int64{1000000, 2000000}[r.Intn(2)]
	b.Ee = b.En / 2
	kA, kB := "i:1001", "i:2002"
	if r.Intn(3) == 0 {
		kA, kB = keyPool[r.Intn(len(keyPool))], "s:6e6573746564"
	}
	t := int64(10)
	val := 1
	if b.P == 1 {
		// only worker: B must already be there when A's loader asks for it
		cb := b.add(t, "load %%c k=%s loader=dur:%d,val:%d", kB, []int64{0, 1000}[r.Intn(2)], val)
		val++
		b.fget(t+2000, cb)
		t += 3000
		ca := b.add(t, "load %%c k=%s loader=dur:%d,val:%d", kA, 500, val)
		val++
		n1 := b.add(0, "load %%c k=%s loader=dur:1,val:99 in=c%d", kB, ca)
		b.add(0, "fget %%c of=c%d in=c%d", n1, ca)
		b.fget(t+1, ca)
		b.add(t+5000, "get2 %%c k=%s", kA)
		return b.line()
	}
	// blockers keep every worker busy while the queue fills
	block := b.En/4 + int64(r.Intn(int(b.En/4)))
	for i := 0; i < b.P; i++ {
		b.add(t+int64(i), "load %%c k=i:%d loader=dur:%d,val:%d", 3000+i, block+int64(i)*7, val)
		val++
	}
	t += int64(b.P) + 5
	// fillers before A (0..2), then A, then B directly behind it (or one filler between), then fillers
	for i, n := 0, r.Intn(3); i < n; i++ {
		b.add(t, "load %%c k=i:%d loader=dur:%d,val:%d", 4000+i, []int64{0, 100, 1000}[r.Intn(3)], val)
		val++
		t++
	}
	ca := b.add(t, "load %%c k=%s loader=dur:%d,val:%d", kA, []int64{0, 500}[r.Intn(2)], val)
	val++
	t++
	if r.Intn(4) == 0 {
		b.add(t, "load %%c k=i:%d loader=dur:50,val:%d", 4500, val)
		val++
		t++
	}
	var cb int
	if r.Intn(5) != 0 { // B queued behind A by a client
		cb = b.add(t, "load %%c k=%s loader=dur:%d,val:%d", kB, []int64{0, 200, 2000}[r.Intn(3)], val)
		val++
		t++
		b.fget(t+block, cb)
	}
	for i, n := 0, r.Intn(3); i < n; i++ {
		b.add(t, "load %%c k=i:%d loader=dur:%d,val:%d", 5000+i, []int64{0, 100}[r.Intn(2)], val)
		val++
		t++
	}
	// what A's loader does: Load(B) (shares the queued load, or starts it) and waits for the result
	n1 := b.add(0, "load %%c k=%s loader=dur:3,val:98 in=c%d", kB, ca)
	b.add(0, "fget %%c of=c%d in=c%d", n1, ca)
	if r.Intn(3) == 0 {
		b.add(0, "get2 %%c k=%s in=c%d", kB, ca)
	}
	b.fget(t+1, ca)
	b.add(t+block+b.En/2, "get2 %%c k=%s", kA)
	b.add(t+block+b.En/2+1, "get2 %%c k=%s", kB)
	return b.line()
}

// SAME-INSTANT BURSTS: 3..9 calls (Get2 / Load / Future.Get2 / Set) issued at ONE virtual instant on keys that are
// loading, fresh, stale, rotted or missing at that instant - sometimes the instant at which a loader returns or a sweep
// tick fires. The goroutines start in an order chosen by the runtime and interleave freely; every legal outcome
// must be accepted.
func genInstantBurst(c *hx.Ctx) string {
	r := c.Rng
	b := pickCfg(r)
	k := keyPool[r.Intn(len(keyPool))]
	k2 := keyPool[r.Intn(len(keyPool))]
	val := 1
	var loads []int
	// the state of k at the burst instant T
	T := b.En + int64(r.Intn(int(3*b.En)))
	if r.Intn(5) == 0 {
		T = 4 * b.En // at the sweep tick
	}
	switch r.Intn(6) {
	case 0: // loading (long loader, possibly two Loads sharing it)
		l := b.add(0, "load %%c k=%s loader=dur:%d,val:%d", k, T+b.En+int64(r.Intn(int(b.En))), val)
		val++
		loads = append(loads, l)
		if r.Intn(2) == 0 {
			l2 := b.add(1000, "load %%c k=%s loader=dur:%d,val:%d", k, b.En, val)
			val++
			loads = append(loads, l2)
			b.fget(1000, l2)
		}
	case 1: // the loader returns exactly at T
		l := b.add(0, "load %%c k=%s loader=dur:%d,val:%d", k, T, val)
		val++
		loads = append(loads, l)
	case 2: // fresh
		l := b.add(T-b.En/2, "load %%c k=%s loader=dur:0,val:%d", k, val)
		val++
		loads = append(loads, l)
	case 3: // stale
		b.add(T-b.En-b.En/3, "set %%c k=%s val:%d", k, val)
		val++
	case 4: // stale with the refresh already running
		b.add(T-b.En-b.En/2, "set %%c k=%s val:%d", k, val)
		val++
		l := b.add(T-1000, "load %%c k=%s loader=dur:%d,val:%d", k, []int64{1000, b.En, 2 * b.En}[r.Intn(3)], val)
		val++
		loads = append(loads, l)
	default: // missing
	}
	n := 3 + r.Intn(7)
	for i := 0; i < n; i++ {
		kk := k
		if r.Intn(6) == 0 {
			kk = k2
		}
		switch r.Intn(10) {
		case 0, 1, 2, 3, 4:
			b.add(T, "get2 %%c k=%s", kk)
		case 5, 6:
			l := b.add(T, "load %%c k=%s loader=dur:%d,val:%d", kk, []int64{0, 1000, b.En}[r.Intn(3)], val)
			val++
			loads = append(loads, l)
			if r.Intn(2) == 0 {
				b.fget(T, l)
			}
		case 7:
			b.add(T, "set %%c k=%s val:%d", kk, val)
			val++
		default:
			if len(loads) > 0 {
				b.fget(T, loads[r.Intn(len(loads))])
			} else {
				b.add(T, "get2 %%c k=%s", kk)
			}
		}
	}
	// one ns later, and much later
	b.add(T+1, "get2 %%c k=%s", k)
	if r.Intn(2) == 0 {
		l := b.add(T+1, "load %%c k=%s loader=dur:1000,val:%d", k, val)
		val++
		loads = append(loads, l)
	}
	for _, l := range loads {
		b.fget(T+4*b.En+int64(r.Intn(1000)), l)
	}
	return b.line()
}

func genPure(c *hx.Ctx, n int) {
	r := c.Rng
	for i := 0; i < n; i++ {
		cnt := 1 << uint(r.Intn(12))
		if r.Intn(10) == 0 {
			cnt = 1 << uint(r.Intn(31))
		}
		var k string
		switch r.Intn(11) {
		case 0:
			k = fmt.Sprintf("i:%d", int64(r.U64()))
		case 1:
			k = fmt.Sprintf("i8:%d", int8(r.U64()))
		case 2:
			k = fmt.Sprintf("i16:%d", int16(r.U64()))
		case 3:
			k = fmt.Sprintf("i32:%d", int32(r.U64()))
		case 4:
			k = fmt.Sprintf("i64:%d", int64(r.U64()))
		case 5:
			k = fmt.Sprintf("u8:%d", uint8(r.U64()))
		case 6:
			k = fmt.Sprintf("u16:%d", uint16(r.U64()))
		case 7:
			k = fmt.Sprintf("u32:%d", uint32(r.U64()))
		case 8:
			k = fmt.Sprintf("u64:%d", r.U64())
		case 9:
			k = keyPool[r.Intn(len(keyPool))]
		default:
			bs := r.Bytes(r.Intn(12))
			if len(bs) == 0 {
				k = "s:-"
			} else {
				k = fmt.Sprintf("s:%x", bs)
			}
		}
		c.Emit("shard %d %s", cnt, k)
		c.Count("shard")
	}
	for e := 0; e <= 62; e++ {
		for _, d := range []int{-1, 0, 1} {
			n := (1 << uint(e)) + d
			if n >= 1 && n <= 1<<62 {
				c.Emit("cpo2 %d", n)
				c.Count("cpo2")
			}
		}
	}
	for i := 0; i < n/4; i++ {
		c.Emit("cpo2 %d", 1+int(r.U64()>>uint(2+r.Intn(60))))
		c.Count("cpo2")
	}
}

func gen(mode string) func(c *hx.Ctx) {
	return func(c *hx.Ctx) {
		emit := func(line, class string) {
			c.Emit("%s", line)
			c.Count(class)
		}
		c.Emit("procs 1")
		// phases shared by the three checks, weighted by mode
		type phase struct {
			n    int
			f    func() string
			name string
		}
		w := func(q, t int) int { return c.Budget(q, t) }
		var phases []phase
		switch mode {
		case "C04":
			genPure(c, w(8000, 100000))
			phases = []phase{
				{w(2500, 30000), func() string { return genShare(c) }, "share"},
				{w(1200, 20000), func() string { return genRandom(c) }, "random"},
				{w(300, 5000), func() string { return genSweep(c) }, "sweep"},
				{w(6, 100), func() string { return genBurst(c, 2+c.Rng.Intn(4)) }, "burst"},
				{w(600, 6000), func() string { return genLongLoad(c) }, "longload"},
				{w(6, 40), func() string { return genManyRotted(c, 130+c.Rng.Intn(170)) }, "manyrotted"},
				{w(6, 40), func() string { return genManyLive(c, 258+c.Rng.Intn(60)) }, "manylive"},
				{w(150, 3000), func() string { return genContract(c) }, "contract"},
				{w(400, 8000), func() string { return genTickTie(c) }, "ticktie"},
				{w(60, 1000), func() string { return genErrorStreak(c) }, "errorstreak"},
				{w(600, 10000), func() string { return genCollide(c) }, "collide"},
				{w(60, 1000), func() string { return genNested(c) }, "nested"},
				{w(800, 12000), func() string { return genInstantBurst(c) }, "instantburst"},
			}
		case "C05":
			genBoundary(c, emit)
			phases = []phase{
				{w(2500, 50000), func() string { return genRandom(c) }, "random"},
				{w(1500, 30000), func() string { return genSweep(c) }, "sweep"},
				{w(600, 10000), func() string { return genShare(c) }, "share"},
				{w(150, 1500), func() string { return genLongLoad(c) }, "longload"},
				{w(40, 150), func() string { return genManyRotted(c, 128+c.Rng.Intn(172)) }, "manyrotted"},
				{w(0, 25), func() string { return genManyRotted(c, 300+c.Rng.Intn(700)) }, "manyrotted_big"},
				{w(10, 40), func() string { return genManyLive(c, 258+c.Rng.Intn(60)) }, "manylive"},
				{w(100, 2000), func() string { return genContract(c) }, "contract"},
				{w(300, 8000), func() string { return genTickTie(c) }, "ticktie"},
				{w(300, 6000), func() string { return genErrorStreak(c) }, "errorstreak"},
				{w(150, 3000), func() string { return genCollide(c) }, "collide"},
				{w(40, 1000), func() string { return genNested(c) }, "nested"},
				{w(500, 8000), func() string { return genInstantBurst(c) }, "instantburst"},
			}
		default: // C06
			phases = []phase{
				{w(60, 500), func() string { return genBurst(c, 3+c.Rng.Intn(10)) }, "burst"},
				{w(4, 50), func() string { return genBurst(c, 40) }, "burst40"},
				{w(150, 8000), func() string { return genShare(c) }, "share"},
				{w(150, 8000), func() string { return genRandom(c) }, "random"},
				{w(100, 1500), func() string { return genLongLoad(c) }, "longload"},
				{w(30, 120), func() string { return genManyLive(c, 257+c.Rng.Intn(64)) }, "manylive"},
				{w(0, 25), func() string { return genManyLive(c, 320+c.Rng.Intn(700)) }, "manylive_big"},
				{w(10, 40), func() string { return genManyRotted(c, 130+c.Rng.Intn(170)) }, "manyrotted"},
				{w(500, 10000), func() string { return genContract(c) }, "contract"},
				{w(100, 3000), func() string { return genTickTie(c) }, "ticktie"},
				{w(40, 1000), func() string { return genErrorStreak(c) }, "errorstreak"},
				{w(100, 2000), func() string { return genCollide(c) }, "collide"},
				{w(400, 8000), func() string { return genNested(c) }, "nested"},
				{w(300, 5000), func() string { return genInstantBurst(c) }, "instantburst"},
			}
		}
		for _, ph := range phases {
			for i := 0; i < ph.n; i++ {
				if c.Thorough() && i == ph.n/2 {
					c.Emit("procs 4") // second half with real parallelism among simultaneous calls
				}
				emit(ph.f(), ph.name)
			}
			c.Emit("procs 1")
		}
		if mode == "C04" { // real goroutines racing on one key
			// never more than 4 Ps under the fake clock (runtime GC live-lock observed with more)
			c.Emit("stress g=3 rounds=%d", w(600, 8000))
			c.Count("stress")
			c.Emit("stress g=2 rounds=%d", w(300, 4000))
			c.Count("stress")
		}
		c.Stats["scenarios_run"] = scenariosRun
		c.Stats["goroutines_at_end"] = runtime.NumGoroutine()
	}
}

func Main(mode string) {
	if os.Getenv("CACHE_PROCS") == "" {
		runtime.GOMAXPROCS(1)
	}
	if os.Getenv("CACHE_CHILD") == "" && os.Getenv("CACHE_NOSUPERVISOR") == "" {
		os.Exit(supervise())
	}
	hx.Main(gen(mode), func(c *hx.Ctx, line string) string {
		w := strings.Fields(line)
		if len(w) == 2 && w[0] == "procs" {
			n, err := strconv.Atoi(w[1])
			if err != nil || n < 1 {
				return "bad-script"
			}
			setProcs(n)
			return "ok"
		}
		return exec(c, line)
	})
}
