package cachehx

import (
	"bytes"
	"fmt"
	"os"
	osexec "os/exec"
	"path/filepath"
	"strings"
	"sync/atomic"
	"syscall"
)

// Supervisor against LIVE-locks. Under the fake clock a goroutine that spins (e.g. a sweeping worker that never finishes
// a shard) keeps virtual time frozen for ever: no timer of the scenario - including the controller's own - fires again
// and the process would hang in real time. No in-process remedy exists (os/signal and blocking system calls stall the
// fake clock themselves), so the harness runs as two processes: the supervisor (this function; it only uses real
// system calls) starts the same binary as a child that does the work with per-line flushing (HX_SYNC), and watches
// script.txt / impl.txt grow. If neither grows for `limit` seconds of REAL time the child is killed and the
// scenario it was executing is reported as `hang 0 livelock(...)`; later scenarios are not run.
const (
	noProgressSeconds       = 12  // a timed scenario normally takes milliseconds
	noProgressSecondsStress = 240 // `stress` lines run thousands of rounds with real goroutines
)

func realNow() int64 {
	var tv syscall.Timeval
	syscall.Gettimeofday(&tv)
	return tv.Sec
}

func fileSize(p string) int64 {
	st, err := os.Stat(p)
	if err != nil {
		return -1
	}
	return st.Size()
}

func lastLine(p string) (n int, last string) {
	b, err := os.ReadFile(p)
	if err != nil {
		return 0, ""
	}
	lines := bytes.Split(bytes.TrimRight(b, "\n"), []byte("\n"))
	if len(b) == 0 {
		return 0, ""
	}
	return len(lines), string(lines[len(lines)-1])
}

func supervise() int {
	out := "."
	for i, a := range os.Args {
		if (a == "-out" || a == "--out") && i+1 < len(os.Args) {
			out = os.Args[i+1]
		} else if strings.HasPrefix(a, "-out=") {
			out = a[5:]
		} else if strings.HasPrefix(a, "--out=") {
			out = a[6:]
		}
	}
	scriptPath, implPath := filepath.Join(out, "script.txt"), filepath.Join(out, "impl.txt")
	os.Remove(scriptPath)
	os.Remove(implPath)
	cmd := osexec.Command(os.Args[0], os.Args[1:]...)
	cmd.Env = append(os.Environ(), "CACHE_CHILD=1", "HX_SYNC=1")
	cmd.Stdout, cmd.Stderr = os.Stdout, os.Stderr
	if err := cmd.Start(); err != nil {
		fmt.Fprintln(os.Stderr, "supervisor: cannot start child:", err)
		return 3
	}
	var done int32
	rc := 0
	go func() {
		if err := cmd.Wait(); err != nil {
			rc = 1
			if ee, ok := err.(*osexec.ExitError); ok && ee.ExitCode() > 0 {
				rc = ee.ExitCode()
			}
		}
		atomic.StoreInt32(&done, 1)
	}()
	lastChange := realNow()
	var s0, i0 int64 = -2, -2
	for atomic.LoadInt32(&done) == 0 {
		ts := syscall.Timespec{Nsec: 100e6}
		syscall.Nanosleep(&ts, nil)
		s1, i1 := fileSize(scriptPath), fileSize(implPath)
		if s1 != s0 || i1 != i0 {
			s0, i0, lastChange = s1, i1, realNow()
			continue
		}
		limit := int64(noProgressSeconds)
		ns, cur := lastLine(scriptPath)
		if strings.HasPrefix(cur, "stress") {
			limit = noProgressSecondsStress
		}
		if realNow()-lastChange < limit {
			continue
		}
		// no progress: kill the child and report the scenario it was executing
		cmd.Process.Kill()
		for atomic.LoadInt32(&done) == 0 {
			ts := syscall.Timespec{Nsec: 20e6}
			syscall.Nanosleep(&ts, nil)
		}
		ni, _ := lastLine(implPath)
		if ns == ni+1 {
			obs := "<killed: no progress for " + fmt.Sprint(limit) + " s of real time>"
			if strings.HasPrefix(cur, "cfg") {
				obs = fmt.Sprintf("S=%d | hang 0 livelock(no-progress-for-%ds-of-real-time:virtual-time-frozen-by-a-spinning-goroutine)", shardCount, limit)
			}
			f, err := os.OpenFile(implPath, os.O_APPEND|os.O_WRONLY|os.O_CREATE, 0o644)
			if err == nil {
				f.WriteString(obs + "\n")
				f.Close()
			}
		}
		os.WriteFile(filepath.Join(out, "stats.json"), []byte(fmt.Sprintf("{\"lines\": %d, \"killed_on_no_progress\": 1}\n", ns)), 0o644)
		return 0
	}
	return rc
}
