package cachehx

import (
	"encoding/hex"
	"hash/crc32"
	"sync"
)

// Hash-colliding string keys. A cache must treat two different strings as two keys whatever digest it keeps of them;
// random or enumerated keys never collide under a 32-bit hash, so the harness brute-forces (birthday search, < 1 s,
// deterministic) groups of DISTINCT strings of EQUAL length that collide under
//   FNV-1a-32, the repository's own fnv32 (multiply, then xor - loom/sharding.go), CRC-32 (IEEE), and the low 16 bits
// of FNV-1a, for short (8, 16) and long (70, 100, 200 bytes) keys. FNV-1a / CRC groups are additionally filtered to
// strings that fall into the same shard (same low bits of the repository's fnv32), because that is where a digest
// keyed map would confuse them.

type collision struct {
	kind string   // fnv1a fnv1 crc32 low16
	keys []string // hex encoded, script syntax "s:<hex>"
}

var (
	collideOnce sync.Once
	collisions  []collision
)

func fnv1a(h uint32, b []byte) uint32 {
	for _, c := range b {
		h ^= uint32(c)
		h *= 16777619
	}
	return h
}

func fnv1(h uint32, b []byte) uint32 { // loom.fnv32
	for _, c := range b {
		h *= 16777619
		h ^= uint32(c)
	}
	return h
}

// the i-th suffix: all positions vary (a scrambled counter in base 26), distinct for distinct i < 26^7
func suffix(i uint32, buf []byte) {
	x := (uint64(i)*2654435761 + 12345) % 8031810176 // 26^7; the multiplier is odd and coprime to 26^7
	for j := range buf {
		buf[j] = 'a' + byte(x%26)
		x /= 26
	}
}

func searchCollisions(kind string, length, n, want int, sameShard bool) {
	const sl = 7 // 26^7 > 8e9 distinct suffixes
	prefix := make([]byte, length-sl)
	for i := range prefix {
		prefix[i] = "https://example.org/api/v1/items?q="[i%35]
	}
	var base uint32
	switch kind {
	case "fnv1a", "low16":
		base = fnv1a(2166136261, prefix)
	case "fnv1":
		base = fnv1(2166136261, prefix)
	case "crc32":
		base = crc32.Update(0, crc32.IEEETable, prefix)
	}
	shardBase := fnv1(2166136261, prefix)
	seen := make(map[uint64]uint32, n)
	buf := make([]byte, sl)
	mk := func(i uint32) string {
		suffix(i, buf)
		return "s:" + hex.EncodeToString(append(append([]byte{}, prefix...), buf...))
	}
	found := 0
	for i := uint32(0); i < uint32(n) && found < want; i++ {
		suffix(i, buf)
		var h uint32
		switch kind {
		case "fnv1a":
			h = fnv1a(base, buf)
		case "low16":
			h = fnv1a(base, buf) & 0xffff
		case "fnv1":
			h = fnv1(base, buf)
		case "crc32":
			h = crc32.Update(base, crc32.IEEETable, buf)
		}
		key := uint64(h)
		if sameShard { // the shard is part of the search key: only same-shard collisions are reported
			key |= uint64(fnv1(shardBase, buf)&uint32(shardCount-1)) << 32
		}
		if j, ok := seen[key]; ok {
			collisions = append(collisions, collision{kind: kind, keys: []string{mk(j), mk(i)}})
			found++
			continue
		}
		seen[key] = i
	}
}

func collidingKeys() []collision {
	collideOnce.Do(func() {
		// long keys (the interesting class for digest-keyed maps), same shard
		searchCollisions("fnv1a", 70, 1500000, 6, true)
		searchCollisions("fnv1a", 100, 1200000, 3, true)
		searchCollisions("fnv1a", 200, 1200000, 3, true)
		searchCollisions("crc32", 70, 1200000, 3, true)
		searchCollisions("fnv1", 70, 400000, 4, false) // same repository hash => same shard anyway
		searchCollisions("fnv1", 200, 400000, 2, false)
		// short keys
		searchCollisions("fnv1a", 8, 1200000, 3, true)
		searchCollisions("fnv1a", 16, 1200000, 2, true)
		searchCollisions("fnv1", 8, 400000, 3, false)
		searchCollisions("crc32", 16, 1200000, 2, true)
		searchCollisions("low16", 12, 5000, 6, true)
		searchCollisions("low16", 80, 5000, 6, true)
		// triples: two pairs of one kind and length that share a member are rare; build triples of low-16 collisions
		var t []string
		for _, c := range collisions {
			if c.kind == "low16" && len(c.keys[0]) == 2+160 {
				t = append(t, c.keys...)
			}
		}
		if len(t) >= 3 {
			collisions = append(collisions, collision{kind: "mixed80", keys: t[:3]})
		}
	})
	return collisions
}
