// C04 harness: thin entry point of the shared cachex virtual-time harness (verif/harness/cmd/c04/cachehx).
// Build with -tags faketime.
package main

import "verif/harness/cmd/c04/cachehx"

func main() { cachehx.Main("C04") }
