package main

import (
	"strconv"
	"strings"

	"verif/harness/hx"
)

var allOps = []string{"bool", "byte", "i16", "i32", "i64", "v7", "bytes", "str", "raw0", "raw1", "raw3"}

func leb(n uint32) []byte {
	var out []byte
	for n > 127 {
		out = append(out, byte(n&0x7f)|0x80)
		n >>= 7
	}
	return append(out, byte(n))
}

func le(v uint64, w int) []byte {
	out := make([]byte, w)
	for i := range out {
		out[i] = byte(v >> (8 * uint(i)))
	}
	return out
}

var biased = []byte{0x00, 0x01, 0x02, 0x07, 0x08, 0x0f, 0x10, 0x7f, 0x80, 0x81, 0x8f, 0xfe, 0xff}

func biasedBytes(c *hx.Ctx, n int) []byte {
	b := make([]byte, n)
	for i := range b {
		if c.Rng.Intn(4) == 0 {
			b[i] = byte(c.Rng.U64())
		} else {
			b[i] = biased[c.Rng.Intn(len(biased))]
		}
	}
	return b
}

func randOp(c *hx.Ctx) string {
	if c.Rng.Intn(12) == 0 {
		return "raw" + strconv.Itoa(c.Rng.Pick([]int{0, 1, 2, 4, 5, 8, 9, 100, 1000}))
	}
	return allOps[c.Rng.Intn(len(allOps))]
}

// a piece of input together with the read call it was built for
func piece(c *hx.Ctx) ([]byte, string) {
	switch c.Rng.Intn(16) {
	case 0:
		return []byte{byte(c.Rng.Intn(3))}, "bool"
	case 1:
		return []byte{byte(c.Rng.U64())}, "byte"
	case 2:
		return le(c.Rng.U64(), 2), "i16"
	case 3:
		return le(c.Rng.U64(), 4), "i32"
	case 4:
		return le(c.Rng.U64(), 8), "i64"
	case 5: // valid 7-bit int of random width
		return leb(uint32(c.Rng.U64()) >> uint(c.Rng.Intn(32))), "v7"
	case 6, 7: // valid length-prefixed data
		n := c.Rng.Pick([]int{0, 1, 2, 5, 17, 127, 128, 129, 300})
		if c.Rng.Intn(40) == 0 {
			n = c.Rng.Pick([]int{16383, 16384, 16385})
		}
		op := "bytes"
		if c.Rng.Bool() {
			op = "str"
		}
		return append(leb(uint32(n)), biasedBytes(c, n)...), op
	case 8: // truncated fixed-width value
		w := c.Rng.Pick([]int{2, 4, 8})
		op := map[int]string{2: "i16", 4: "i32", 8: "i64"}[w]
		return le(c.Rng.U64(), w)[:c.Rng.Intn(w)], op
	case 9: // truncated length-prefixed data (prefix complete, data short by 1..)
		n := c.Rng.Pick([]int{1, 2, 5, 127, 128, 129, 200})
		have := c.Rng.Intn(n)
		if c.Rng.Bool() {
			have = n - 1
		}
		return append(leb(uint32(n)), biasedBytes(c, have)...), "bytes"
	case 10: // over-long / malformed 7-bit groups
		k := c.Rng.Range(1, 7)
		b := make([]byte, k)
		for i := range b {
			b[i] = 0x80 | byte(c.Rng.U64())
		}
		switch c.Rng.Intn(4) {
		case 0: // fifth byte > 15
			b = append(b[:min(k, 4)], byte(c.Rng.Range(16, 255)))
		case 1: // ends in the middle of the groups
		case 2:
			b = append(b, byte(c.Rng.Intn(16)))
		case 3:
			b = append(b, byte(c.Rng.U64()))
		}
		return b, pickS(c, []string{"v7", "bytes", "str"})
	case 11, 12: // length prefix larger than what follows, up to 2^31-1
		follow := c.Rng.Intn(6)
		var n uint32
		switch c.Rng.Intn(6) {
		case 0:
			n = uint32(follow + 1)
		case 1:
			n = uint32(c.Rng.Pick([]int{128, 16384, 1 << 21, 1 << 27, 1 << 28, 1 << 30}))
		case 2:
			n = 1<<31 - 1
		case 3:
			n = 1<<31 - 1 - uint32(c.Rng.Intn(1000))
		case 4:
			n = uint32(c.Rng.U64()) >> 1 >> uint(c.Rng.Intn(24))
			if int(n) <= follow {
				n = uint32(follow) + 1
			}
		default:
			n = uint32(follow+1) + uint32(c.Rng.Intn(200))
		}
		return append(leb(n), biasedBytes(c, follow)...), pickS(c, []string{"bytes", "str"})
	case 13: // negative size
		n := uint32(1)<<31 | uint32(c.Rng.U64())>>uint(1+c.Rng.Intn(31))
		return append(leb(n), biasedBytes(c, c.Rng.Intn(4))...), pickS(c, []string{"bytes", "str"})
	case 14: // non-canonical encodings of small sizes (80 80 00 ...)
		n := c.Rng.Intn(4)
		k := c.Rng.Range(1, 4)
		b := leb(uint32(n))
		b[len(b)-1] |= 0x80
		for i := 1; i < k; i++ {
			b = append(b, 0x80)
		}
		b = append(b, 0)
		return append(b, biasedBytes(c, n)...), pickS(c, []string{"bytes", "str", "v7"})
	}
	return biasedBytes(c, c.Rng.Intn(9)), randOp(c)
}

// emit runs one case unless the allocation bound was already violated more than 30 times in this process: the check has
// failed by then and every further hostile prefix costs up to a second (2 GiB are allocated and zeroed per call)
func emit(c *hx.Ctx, format string, a ...any) {
	if allocViolations > 30 {
		c.Count("skipped_after_30_allocation_violations")
		return
	}
	c.Emit(format, a...)
}

func pickS(c *hx.Ctx, xs []string) string { return xs[c.Rng.Intn(len(xs))] }

func emitAllPositions(c *hx.Ctx, s []byte, full bool) {
	var ops []string
	for _, o := range allOps {
		ops = append(ops, "@0 "+o)
	}
	for k := 1; k <= len(s); k++ {
		if full {
			for _, o := range allOps {
				ops = append(ops, "@"+strconv.Itoa(k)+" "+o)
			}
		} else {
			// a rotating subset of four calls at the inner positions
			h := int(s[0])*7 + k*3
			if len(s) > 1 {
				h += int(s[1]) * 13
			}
			for j := 0; j < 4; j++ {
				ops = append(ops, "@"+strconv.Itoa(k)+" "+allOps[(h+j*3)%len(allOps)])
			}
		}
	}
	emit(c, "%s | %s", hexOf(s), strings.Join(ops, " ; "))
}

func gen(c *hx.Ctx) {
	// 1. exhaustive: every byte string of length <= 2, every read call at position 0 (thorough: at every position)
	full := c.Thorough()
	emitAllPositions(c, nil, true)
	c.Count("exhaustive_len0")
	for a := 0; a < 256; a++ {
		emitAllPositions(c, []byte{byte(a)}, true)
		c.Count("exhaustive_len1")
	}
	for a := 0; a < 256; a++ {
		for b := 0; b < 256; b++ {
			emitAllPositions(c, []byte{byte(a), byte(b)}, full)
			c.Count("exhaustive_len2")
		}
	}
	// length 3: thorough only, all first two bytes x a sample of third bytes, calls at position 0
	if c.Thorough() {
		var ops []string
		for _, o := range allOps {
			ops = append(ops, "@0 "+o)
		}
		body := strings.Join(ops, " ; ")
		third := []byte{0x00, 0x01, 0x0f, 0x10, 0x7f, 0x80, 0xff, byte(c.Rng.U64()), byte(c.Rng.U64()), byte(c.Rng.U64()), byte(c.Rng.U64()), byte(c.Rng.U64())}
		for a := 0; a < 256; a++ {
			for b := 0; b < 256; b++ {
				for _, t := range third {
					emit(c, "%s | %s", hexOf([]byte{byte(a), byte(b), t}), body)
					c.Count("len3_sampled_third")
				}
			}
		}
	}
	// 7-bit decoder: every pattern of continuation bits over boundary digits, lengths 1..6
	digits := []byte{0x00, 0x01, 0x0f, 0x10, 0x7f}
	var rec func(prefix []byte, depth int)
	rec = func(prefix []byte, depth int) {
		if depth > 0 {
			emit(c, "%s | v7 ; @0 bytes ; @0 str", hexOf(prefix))
			c.Count("v7_patterns")
		}
		if depth == 6 {
			return
		}
		for _, d := range digits {
			if depth >= 3 && d != 0x00 && d != 0x0f && d != 0x10 && c.Rng.Intn(3) > 0 {
				continue
			}
			for _, cont := range []byte{0x00, 0x80} {
				if cont == 0 && depth < 5 {
					// terminal byte: emit and stop this branch
					emit(c, "%s | v7 ; @0 bytes ; @0 str", hexOf(append(append([]byte(nil), prefix...), d)))
					c.Count("v7_patterns")
					continue
				}
				if cont == 0x80 {
					rec(append(append([]byte(nil), prefix...), d|0x80), depth+1)
				}
			}
		}
	}
	rec(nil, 0)

	// 1b. big records that are really present: a length prefix of 65535 / 65536 / 65537 / 70000 / 2^20 (and random sizes
	// above 64 KiB in the thorough tier) followed by that many bytes, behind a few other values (non-zero start offset) and in
	// front of further values; every value is read with the matching call, so value, Position() after the big read and
	// everything decoded behind it are compared
	bigSizes := []int{65535, 65536, 65537, 70000, 1 << 20}
	for i := 0; i < c.Budget(0, 8); i++ {
		bigSizes = append(bigSizes, c.Rng.Range(65536, 400000))
	}
	for _, n := range bigSizes {
		for _, op := range []string{"bytes", "str"} {
			if n == 1<<20 && !c.Thorough() && (op == "str") == c.Rng.Bool() {
				continue // quick tier: the 1 MiB record once
			}
			var input []byte
			var ops []string
			add := func(b []byte, o string) { input = append(input, b...); ops = append(ops, o) }
			for k := c.Rng.Range(1, 3); k > 0; k-- { // what precedes the record
				switch c.Rng.Intn(3) {
				case 0:
					add([]byte{byte(c.Rng.U64())}, "byte")
				case 1:
					add(le(c.Rng.U64(), 4), "i32")
				default:
					add(append(leb(3), 'a', 'b', 'c'), "str")
				}
			}
			add(append(leb(uint32(n)), biasedBytes(c, n)...), op)
			for k := c.Rng.Range(1, 5); k > 0; k-- { // what follows it: fewer or more bytes than the start offset
				switch c.Rng.Intn(4) {
				case 0:
					add(le(c.Rng.U64(), 2), "i16")
				case 1:
					m := c.Rng.Range(1, 40)
					add(append(leb(uint32(m)), biasedBytes(c, m)...), "bytes")
				case 2:
					add(leb(uint32(c.Rng.U64())>>uint(c.Rng.Intn(32))), "v7")
				default:
					add(le(c.Rng.U64(), 8), "i64")
				}
			}
			ops = append(ops, "byte") // one call beyond the end
			emit(c, "%s | %s", hexOf(input), strings.Join(ops, " ; "))
			c.Count("big_valid_record_64KiB_and_above")
		}
	}

	// 1b'. capacity history: the stream was filled by one Write of the whole input, so with inputs of 64 KiB .. 1 MiB its buffer
	// is large while the unread rest shrinks from call to call; every case is also replayed with a Tidy() at every split point
	// (tidyCheck in main.go), i.e. grow - drain to a small or a large unread rest - Tidy - continued decoding.
	//  (i)   two or three records of 64 KiB and more back to back, small values between and behind them;
	//  (ii)  a big record followed by a large unread rest: a second record of 16383 / 16384 / 16385 / 40000 / 65536 bytes;
	//  (iii) the input drained by raw reads in chunks (16 KiB, 64 KiB, 70000) the way a copy loop does, small values at the end;
	//  (iv)  calls on fresh streams positioned around 64 KiB and just before the end of a big input.
	capBig := []int{65536, 65537, 70000, 131072}
	if c.Thorough() {
		capBig = append(capBig, 200000, 262144, 1<<20-1, 1<<20+1)
	}
	small := func(add func([]byte, string)) {
		switch c.Rng.Intn(5) {
		case 0:
			add([]byte{byte(c.Rng.U64())}, "byte")
		case 1:
			add(le(c.Rng.U64(), 4), "i32")
		case 2:
			add(append(leb(3), 'x', 'y', 'z'), "str")
		case 3:
			add(leb(uint32(c.Rng.U64())>>uint(c.Rng.Intn(32))), "v7")
		default:
			add(le(c.Rng.U64(), 8), "i64")
		}
	}
	bigOp := func() string { return pickS(c, []string{"bytes", "str"}) }
	for i := 0; i < c.Budget(3, 24); i++ { // (i)
		var input []byte
		var ops []string
		add := func(b []byte, o string) { input = append(input, b...); ops = append(ops, o) }
		if c.Rng.Bool() {
			small(add)
		}
		total := 0
		for k := c.Rng.Range(2, 3); k > 0; k-- {
			n := capBig[c.Rng.Intn(len(capBig))]
			if total+n > 1<<20+200000 {
				n = 65537
			}
			total += n
			add(append(leb(uint32(n)), biasedBytes(c, n)...), bigOp())
			for m := c.Rng.Intn(3); m > 0; m-- {
				small(add)
			}
		}
		ops = append(ops, "i32")
		emit(c, "%s | %s", hexOf(input), strings.Join(ops, " ; "))
		c.Count("big_records_back_to_back")
	}
	for i, rest := range []int{16383, 16384, 16385, 40000, 65536} { // (ii)
		for j, n := range capBig {
			if !c.Thorough() && j != i%len(capBig) {
				continue
			}
			var input []byte
			var ops []string
			add := func(b []byte, o string) { input = append(input, b...); ops = append(ops, o) }
			small(add)
			add(append(leb(uint32(n)), biasedBytes(c, n)...), bigOp())
			// the second record without its prefix bytes and the trailing value make the rest exactly `rest` bytes at i%2 == 0
			m := rest - 4
			if i%2 == 0 {
				m -= len(leb(uint32(m)))
			}
			add(append(leb(uint32(m)), biasedBytes(c, m)...), bigOp())
			add(le(c.Rng.U64(), 4), "i32")
			ops = append(ops, "byte")
			emit(c, "%s | %s", hexOf(input), strings.Join(ops, " ; "))
			c.Count("big_record_then_large_unread_rest")
		}
	}
	for i, chunk := range []int{16384, 65536, 70000} { // (iii)
		for j, n := range capBig {
			if !c.Thorough() && j != (i+1)%len(capBig) {
				continue
			}
			var tailIn []byte
			var tailOps []string
			add := func(b []byte, o string) { tailIn = append(tailIn, b...); tailOps = append(tailOps, o) }
			for k := c.Rng.Range(1, 4); k > 0; k-- {
				small(add)
			}
			body := n / chunk * chunk // whole chunks, then the small values
			if body == 0 {
				body = chunk
			}
			input := append(biasedBytes(c, body), tailIn...)
			var ops []string
			for k := body / chunk; k > 0; k-- {
				ops = append(ops, "raw"+strconv.Itoa(chunk))
			}
			ops = append(ops, tailOps...)
			ops = append(ops, "raw"+strconv.Itoa(chunk), "byte")
			emit(c, "%s | %s", hexOf(input), strings.Join(ops, " ; "))
			c.Count("big_input_drained_in_raw_chunks")
		}
	}
	for _, n := range capBig { // (iv)
		if !c.Thorough() && n != 70000 && n != 131072 {
			continue
		}
		input := append(leb(uint32(n)), biasedBytes(c, n)...)
		input = append(input, le(c.Rng.U64(), 4)...)
		input = append(input, append(leb(5), 'h', 'e', 'l', 'l', 'o')...)
		end := len(input)
		var ops []string
		for _, k := range []int{65535, 65536, 65537, end - 10, end - 6, end - 3, end - 1, end} {
			if k < 0 || k > end {
				continue
			}
			at := "@" + strconv.Itoa(k) + " "
			ops = append(ops, at+"i32", "str", at+"bytes", at+"raw8", "byte")
		}
		ops = append(ops, "@0 "+bigOp(), "i32", "str", "byte")
		emit(c, "%s | %s", hexOf(input), strings.Join(ops, " ; "))
		c.Count("big_input_fresh_positions_around_64KiB_and_end")
	}

	// 1c. hash collisions: length-prefixed values whose contents are distinct equal-length strings colliding under the usual
	// cheap 32-bit hashes (and 16-bit truncations), decoded back-to-back and interleaved by one reader
	collisionLens := []int{3, 4, 5, 6, 7, 8, 9, 10, 11, 12, 13, 14, 15, 16, 17, 24, 33, 64}
	for _, col := range findCollisions(hx.NewRng(c.Seed^0x5eedc012), c.Budget(150000, 400000), c.Budget(1, 3), collisionLens) {
		rec := func(v []byte) []byte { return append(leb(uint32(len(v))), v...) }
		a, b := rec(col.vals[0]), rec(col.vals[1])
		var in1, in2 []byte
		for _, r := range [][]byte{a, b, a, b} {
			in1 = append(in1, r...)
		}
		emit(c, "%s | str ; str ; str ; str", hexOf(in1))
		for _, r := range [][]byte{a, a, b, {0x07}, b, a, b} {
			in2 = append(in2, r...)
		}
		emit(c, "%s | str ; bytes ; str ; byte ; bytes ; str ; str", hexOf(in2))
		c.Count("hash_collision_set")
	}

	// 2. structure-aware random inputs: concatenated pieces (valid, truncated, over-long, hostile prefixes) + matching / random calls
	for i := 0; i < c.Budget(25000, 600000); i++ {
		var input []byte
		var ops []string
		for k := c.Rng.Range(1, 5); k > 0; k-- {
			b, op := piece(c)
			input = append(input, b...)
			if c.Rng.Intn(4) == 0 {
				op = randOp(c)
			}
			ops = append(ops, op)
		}
		for k := c.Rng.Intn(3); k > 0; k-- {
			ops = append(ops, randOp(c))
		}
		if c.Rng.Intn(5) == 0 {
			j := c.Rng.Intn(len(ops))
			ops[j] = "@" + strconv.Itoa(c.Rng.Intn(min(len(input), 12)+1)) + " " + ops[j]
		}
		emit(c, "%s | %s", hexOf(input), strings.Join(ops, " ; "))
		c.Count("structured")
	}
	// 3. short biased inputs, longer random call sequences
	for i := 0; i < c.Budget(15000, 400000); i++ {
		input := biasedBytes(c, c.Rng.Intn(13))
		n := c.Rng.Range(1, 10)
		ops := make([]string, n)
		for j := range ops {
			ops[j] = randOp(c)
		}
		emit(c, "%s | %s", hexOf(input), strings.Join(ops, " ; "))
		c.Count("random_sequences")
	}
}
