// C12 harness: every read call of the real iox stream/reader on arbitrary bytes.
//
//	<hex input> | [@k ]<op> ; [@k ]<op> ; ...
//
// op = bool byte i16 i32 i64 v7 bytes str raw<n> (raw<n> = stream.Read into a zeroed n-byte buffer).
// The ops run in order on one stream holding the input; `@k` = this call is made on a fresh stream holding the same
// input with Position() == k (reached with k ReadByte calls).
// Output per op:  <out> p=<Position()> l=<Len()> a=<0|1>   joined by " ; "
//
// The line ends with ` | alias=-`, or ` | alias=<i>` when the string returned by op i (ReadString) changed after the stream
// was compacted (Tidy) or reused (Reset + Write) later — see aliasCheck — or ` | alias=tidy<i>:<what>` when a Tidy() between
// two calls of the case (before op i) was not transparent to the reader — see tidyCheck.
//
//	out = ok:<value> | err:<Enum> | panic
//	a=1 iff the bytes allocated during the call (runtime.MemStats.TotalAlloc delta; single goroutine, GOMAXPROCS=1,
//	GC off) exceed 2*(remaining input before the call) + 4096 (input-proportional plus a constant: a fixed-size lazily built table is not an input-driven allocation) — a yes/no figure so that the line stays deterministic.
package main

import (
	"bytes"
	"encoding/hex"
	"fmt"
	"runtime"
	"runtime/debug"
	"strconv"
	"strings"

	"github.com/lixianmin/got/iox"
	"verif/harness/hx"
)

func hexOf(b []byte) string {
	if len(b) == 0 {
		return "-"
	}
	return hex.EncodeToString(b)
}

func unhex(s string) []byte {
	if s == "-" {
		return []byte{}
	}
	b, err := hex.DecodeString(s)
	if err != nil {
		panic("bad hex in script: " + s)
	}
	return b
}

func errName(err error) string {
	switch err {
	case iox.ErrNotEnoughData:
		return "NotEnoughData"
	case iox.ErrBad7BitInt:
		return "Bad7BitInt"
	case iox.ErrNegativeSize:
		return "NegativeSize"
	case iox.ErrInvalidArgument:
		return "InvalidArgument"
	}
	return "Other(" + strings.ReplaceAll(err.Error(), " ", "_") + ")"
}

const (
	opBool = iota
	opByte
	opI16
	opI32
	opI64
	opV7
	opBytes
	opStr
	opRaw
)

var opNames = map[string]int{"bool": opBool, "byte": opByte, "i16": opI16, "i32": opI32, "i64": opI64, "v7": opV7, "bytes": opBytes, "str": opStr}

// result of one call, filled inside the metered window without allocating
type result struct {
	ival     int64
	bval     bool
	data     []byte
	sval     string
	count    int
	err      error
	panicked bool
}

//go:noinline
func call(op int, r *iox.OctetsReader, s *iox.OctetsStream, buf []byte, res *result) {
	defer func() {
		if e := recover(); e != nil {
			res.panicked = true
		}
	}()
	switch op {
	case opBool:
		res.bval, res.err = r.ReadBool()
	case opByte:
		var v byte
		v, res.err = r.ReadByte()
		res.ival = int64(v)
	case opI16:
		var v int16
		v, res.err = r.ReadInt16()
		res.ival = int64(v)
	case opI32:
		var v int32
		v, res.err = r.ReadInt32()
		res.ival = int64(v)
	case opI64:
		res.ival, res.err = r.ReadInt64()
	case opV7:
		var v int32
		v, res.err = r.Read7BitEncodedInt()
		res.ival = int64(v)
	case opBytes:
		res.data, res.err = r.ReadBytes()
	case opStr:
		res.sval, res.err = r.ReadString()
	case opRaw:
		res.count, res.err = s.Read(buf)
	}
}

func fresh(input []byte, k int) (*iox.OctetsStream, *iox.OctetsReader) {
	s := &iox.OctetsStream{}
	if err := s.Write(append([]byte(nil), input...)); err != nil {
		panic("setup: Write failed")
	}
	for i := 0; i < k; i++ {
		if _, err := s.ReadByte(); err != nil {
			panic("setup: cannot position the stream")
		}
	}
	if s.Position() != k || s.Len() != len(input) {
		panic("setup: stream not at the requested position")
	}
	return s, iox.NewOctetsReader(s)
}

var m0, m1 runtime.MemStats
var lines int

// number of calls so far whose allocation exceeded the bound; the generator stops producing further random cases once
// this is large (the check has failed already; every further 2 GiB allocation costs about a second)
var allocViolations int

func exec(c *hx.Ctx, line string) string {
	lines++
	if lines%20000 == 0 {
		runtime.GC() // GC is off (no background allocation during metering); collect garbage between cases
	}
	parts := strings.SplitN(line, "|", 2)
	if len(parts) != 2 {
		return "bad-op"
	}
	input := unhex(strings.TrimSpace(parts[0]))
	s, r := fresh(input, 0)
	var out []string
	var steps []step
	hasStr, overAlloc := false, false
	for _, f := range strings.Split(parts[1], ";") {
		w := strings.Fields(f)
		if len(w) == 0 {
			continue
		}
		at := -1
		if strings.HasPrefix(w[0], "@") {
			k, err := strconv.Atoi(w[0][1:])
			if err != nil || len(w) != 2 {
				return "bad-op"
			}
			s, r = fresh(input, k)
			w = w[1:]
			at = k
		}
		op, ok := opNames[w[0]]
		var buf []byte
		if !ok {
			if !strings.HasPrefix(w[0], "raw") {
				return "bad-op"
			}
			n, err := strconv.Atoi(w[0][3:])
			if err != nil {
				return "bad-op"
			}
			op = opRaw
			buf = make([]byte, n)
		}
		steps = append(steps, step{at: at, op: op, rawN: len(buf)})
		remaining := s.Len() - s.Position()
		posBefore := s.Position()
		var res result
		runtime.ReadMemStats(&m0)
		call(op, r, s, buf, &res)
		runtime.ReadMemStats(&m1)
		allocated := m1.TotalAlloc - m0.TotalAlloc
		var o string
		switch {
		case res.panicked:
			o = "panic"
		case res.err != nil:
			o = "err:" + errName(res.err)
		default:
			switch op {
			case opBool:
				o = "ok:0"
				if res.bval {
					o = "ok:1"
				}
			case opByte:
				o = "ok:" + hexOf([]byte{byte(res.ival)})
			case opI16, opI32, opI64, opV7:
				o = "ok:" + strconv.FormatInt(res.ival, 10)
			case opBytes:
				if len(res.data) > len(input) {
					// more bytes than the whole input holds: never correct; not printed (can be gigabytes)
					o = fmt.Sprintf("ok:oversize%d", len(res.data))
				} else {
					o = "ok:" + hexOf(res.data)
				}
			case opStr:
				if len(res.sval) > len(input) {
					o = fmt.Sprintf("ok:oversize%d", len(res.sval))
				} else {
					o = "ok:" + hexOf([]byte(res.sval))
				}
			case opRaw:
				if res.count < 0 || res.count > len(buf) {
					o = fmt.Sprintf("ok:badcount%d", res.count)
				} else {
					o = fmt.Sprintf("ok:%d:%s", res.count, hexOf(buf[:res.count]))
				}
			}
		}
		if op == opStr && !res.panicked && res.err == nil && len(res.sval) > 0 && len(res.sval) <= len(input) {
			hasStr = true
		}
		a := 0
		if allocated > uint64(2*remaining+4096) {
			a = 1
			allocViolations++
			overAlloc = true
		}
		steps[len(steps)-1].res, steps[len(steps)-1].buf, steps[len(steps)-1].dpos = res, buf, s.Position()-posBefore
		if allocated > 1<<20 {
			// GC is off: give a large allocation back at once, otherwise a few hostile prefixes exhaust the address space
			res = result{}
			runtime.GC()
			debug.FreeOSMemory()
		}
		out = append(out, fmt.Sprintf("%s p=%d l=%d a=%d", o, s.Position(), s.Len(), a))
	}
	alias := "-"
	if hasStr && allocViolations <= 30 {
		alias = hx.SafeExec(func() string { return aliasCheck(input, steps) })
		if strings.HasPrefix(alias, "panic") {
			alias = "panic"
		}
	}
	if alias == "-" && !overAlloc && allocViolations <= 30 {
		alias = hx.SafeExec(func() string { return tidyCheck(input, steps) })
		if strings.HasPrefix(alias, "panic") {
			alias = "tidy:panic"
		}
		if len(input) >= 1<<15 {
			runtime.GC() // GC is off: the replays of a large case each copied the input
		}
	}
	return strings.Join(out, " ; ") + " | alias=" + alias
}

type step struct {
	at   int // >= 0: the call is made on a fresh stream positioned there
	op   int
	rawN int
	// what the call did in the observed run (tidyCheck compares against it)
	res  result
	buf  []byte // destination of a raw read
	dpos int    // Position() after - before
}

// keptStr: a string returned by a successful ReadString, the bytes it had when it was returned, and the stream it came from
type keptStr struct {
	idx    int
	s      string
	want   []byte
	stream *iox.OctetsStream
}

func firstChanged(ks []keptStr, on *iox.OctetsStream) int {
	for _, k := range ks {
		if (on == nil || k.stream == on) && k.s != string(k.want) {
			return k.idx
		}
	}
	return -1
}

// replay runs steps[:upto] (not metered), keeping every non-empty string returned by ReadString
func replay(input []byte, steps []step, upto int) (ks []keptStr, streams []*iox.OctetsStream, cur *iox.OctetsStream) {
	s, r := fresh(input, 0)
	streams = append(streams, s)
	for i := 0; i < upto; i++ {
		st := steps[i]
		if st.at >= 0 {
			s, r = fresh(input, st.at)
			streams = append(streams, s)
		}
		var res result
		call(st.op, r, s, make([]byte, st.rawN), &res)
		if st.op == opStr && !res.panicked && res.err == nil && len(res.sval) > 0 && len(res.sval) <= len(input) {
			ks = append(ks, keptStr{i, res.sval, []byte(res.sval), s})
		}
	}
	return ks, streams, s
}

// aliasCheck: a Go string is immutable, so a string returned by ReadString must keep the bytes it had when it was returned,
// whatever happens to the stream later. Strings are kept (a) over the whole case, then every stream used is compacted with
// Tidy() and afterwards reused with Reset() + Write(junk at least as long as the old contents); (b) for up to three ops i
// that returned a string while unread data was left behind it: the case is replayed up to op i and the stream is compacted
// right there (Tidy() really moves the unread bytes over the consumed region), then reused. Returns "-" or the index of the
// first op whose returned string changed.
func aliasCheck(input []byte, steps []step) string {
	junk := make([]byte, len(input)+16)
	for i := range junk {
		junk[i] = 0xEE
	}
	stress := func(ks []keptStr, streams []*iox.OctetsStream) int {
		for _, s := range streams {
			s.Tidy()
			if i := firstChanged(ks, s); i >= 0 {
				return i
			}
		}
		for _, s := range streams {
			s.Reset()
			_ = s.Write(junk)
			if i := firstChanged(ks, s); i >= 0 {
				return i
			}
		}
		return -1
	}
	ks, streams, _ := replay(input, steps, len(steps))
	if i := stress(ks, streams); i >= 0 {
		return strconv.Itoa(i)
	}
	mid := 0
	for _, k := range ks {
		if mid >= 3 {
			break
		}
		ks2, _, cur := replay(input, steps, k.idx+1)
		if cur.Position() >= cur.Len() || len(ks2) == 0 {
			continue // nothing unread behind it: Tidy would not move anything
		}
		mid++
		if i := stress(ks2, []*iox.OctetsStream{cur}); i >= 0 {
			return strconv.Itoa(i)
		}
	}
	return "-"
}

// sameResult: the two calls had the same outcome (panic / error identity / value)
func sameResult(op int, a, b *result, bufA, bufB []byte) bool {
	if a.panicked != b.panicked {
		return false
	}
	if a.panicked {
		return true
	}
	if (a.err == nil) != (b.err == nil) {
		return false
	}
	if a.err != nil {
		return a.err == b.err || a.err.Error() == b.err.Error()
	}
	switch op {
	case opBool:
		return a.bval == b.bval
	case opBytes:
		return bytes.Equal(a.data, b.data)
	case opStr:
		return a.sval == b.sval
	case opRaw:
		return a.count == b.count && a.count >= 0 && a.count <= len(bufA) && a.count <= len(bufB) && bytes.Equal(bufA[:a.count], bufB[:a.count])
	}
	return a.ival == b.ival
}

// tidyCheck: compaction is transparent to a reader. A receive loop decodes what is complete, calls Tidy() and goes on decoding
// (OctetsStream.Tidy is documented to drop the consumed prefix only), so for split points i of the case (every i for up to 10
// ops, five spread ones otherwise) the calls before op i are replayed on a stream of their own (not metered), then Tidy() is
// called and
//   - 0 <= Position() <= Len(), the number of unread bytes is what it was, Bytes() is the unread rest of the input;
//   - the following calls of the case (up to the next `@k`, which abandons the stream) have the same outcome - value, error
//     identity, no panic - and consume the same number of bytes as they did in the observed run without the Tidy().
//
// The capacity history matters here: the stream was filled with the whole input by one Write, so for inputs of 64 KiB and
// more (the big-record classes) Tidy() runs on a large buffer with a small or a large unread rest.
// Returns "-" or `tidy<i>:<what>` (Tidy before op i).
func tidyCheck(input []byte, steps []step) string {
	n := len(steps)
	var splits []int
	if n <= 10 {
		for i := 1; i <= n; i++ {
			splits = append(splits, i)
		}
	} else {
		for _, i := range []int{1, n / 3, n / 2, 2 * n / 3, n} {
			if len(splits) == 0 || splits[len(splits)-1] != i {
				splits = append(splits, i)
			}
		}
	}
	one := func(i int) (verdict string) {
		defer func() {
			if e := recover(); e != nil {
				verdict = fmt.Sprintf("tidy%d:panic", i)
			}
		}()
		// the stream op i-1 worked on: everything before the last `@k` at or before i-1 happened on abandoned streams
		from := 0
		for j := i - 1; j > 0; j-- {
			if steps[j].at >= 0 {
				from = j
				break
			}
		}
		start := 0
		if steps[from].at >= 0 {
			start = steps[from].at
		}
		s, r := fresh(input, start)
		for j := from; j < i; j++ {
			var res result
			call(steps[j].op, r, s, make([]byte, steps[j].rawN), &res)
		}
		p0 := s.Position()
		if p0 < 0 || p0 > len(input) || s.Len() != len(input) {
			return "-" // the reads themselves left the stream in a bad state: judged on the observed run
		}
		s.Tidy()
		p, l := s.Position(), s.Len()
		if p < 0 || p > l {
			return fmt.Sprintf("tidy%d:Position()=%d_outside_[0,Len()=%d]", i, p, l)
		}
		if l-p != len(input)-p0 {
			return fmt.Sprintf("tidy%d:unread=%d_was_%d", i, l-p, len(input)-p0)
		}
		if !bytes.Equal(s.Bytes(), input[p0:]) {
			return fmt.Sprintf("tidy%d:unread_bytes_changed", i)
		}
		for j := i; j < n && steps[j].at < 0; j++ {
			before := s.Position()
			var res result
			buf := make([]byte, steps[j].rawN)
			call(steps[j].op, r, s, buf, &res)
			if !sameResult(steps[j].op, &steps[j].res, &res, steps[j].buf, buf) {
				return fmt.Sprintf("tidy%d:op%d_outcome_differs", i, j)
			}
			if s.Position()-before != steps[j].dpos {
				return fmt.Sprintf("tidy%d:op%d_consumed_%d_was_%d", i, j, s.Position()-before, steps[j].dpos)
			}
		}
		return "-"
	}
	for _, i := range splits {
		if v := one(i); v != "-" {
			return v
		}
	}
	return "-"
}

func main() {
	runtime.GOMAXPROCS(1)
	debug.SetGCPercent(-1)
	hx.Main(gen, exec)
}
