package main

// Hash-collision class: sets of DISTINCT strings of EQUAL length that collide under the usual cheap 32-bit string hashes
// (FNV-1a-32, FNV-1-32, CRC-32 IEEE, Adler-32, djb2, sdbm, Java-style 31*h+c) and under the 16-bit truncation of each.
// A decoder that caches / interns / deduplicates values by such a hash (and length) returns the wrong value for the second
// of two colliding values; random strings never collide. Found by brute force at start-up (sorting the hashes of a few
// 10^5 random candidates per base length, well under a second); all these hashes are iterated state machines, so a
// collision of two equal-length strings survives appending a common suffix, which gives every longer length.
// (This file is duplicated verbatim in harness/cmd/c12.)

import (
	"hash/adler32"
	"hash/crc32"
	"sort"

	"verif/harness/hx"
)

type hashFn struct {
	name string
	f    func([]byte) uint32
}

var cheapHashes = []hashFn{
	{"fnv1a32", func(b []byte) uint32 {
		h := uint32(2166136261)
		for _, c := range b {
			h = (h ^ uint32(c)) * 16777619
		}
		return h
	}},
	{"fnv1_32", func(b []byte) uint32 {
		h := uint32(2166136261)
		for _, c := range b {
			h = (h * 16777619) ^ uint32(c)
		}
		return h
	}},
	{"crc32", crc32.ChecksumIEEE},
	{"adler32", adler32.Checksum},
	{"djb2", func(b []byte) uint32 {
		h := uint32(5381)
		for _, c := range b {
			h = h*33 + uint32(c)
		}
		return h
	}},
	{"sdbm", func(b []byte) uint32 {
		h := uint32(0)
		for _, c := range b {
			h = uint32(c) + (h << 6) + (h << 16) - h
		}
		return h
	}},
	{"java31", func(b []byte) uint32 {
		h := uint32(0)
		for _, c := range b {
			h = 31*h + uint32(c)
		}
		return h
	}},
}

// collision: two or three distinct equal-length strings with the same hash value
type collision struct {
	hash string // e.g. "fnv1a32", "crc32/16"
	vals [][]byte
}

const alnum = "abcdefghijklmnopqrstuvwxyz0123456789ABCDEFGHIJKLMNOPQRSTUVWXYZ"

// direct16: collisions of the 16-bit truncation of h among 4096 random strings of length l
func direct16(rng *hx.Rng, h hashFn, l int, perCell int) []collision {
	seen := map[uint32][]byte{}
	var out []collision
	for i := 0; i < 4096 && len(out) < perCell; i++ {
		c := make([]byte, l)
		for j := range c {
			if l <= 4 {
				c[j] = byte(rng.U64() >> 11)
			} else {
				c[j] = alnum[rng.Intn(len(alnum))]
			}
		}
		k := h.f(c) & 0xffff
		if p, ok := seen[k]; ok && string(p) != string(c) {
			out = append(out, collision{h.name + "/16", [][]byte{p, c}})
			delete(seen, k)
			continue
		}
		seen[k] = c
	}
	return out
}

// findCollisions returns, for every hash (full width and 16-bit truncation) and every length in wantLens, up to perCell
// collision sets. n = number of random candidates per base length.
func findCollisions(rng *hx.Rng, n int, perCell int, wantLens []int) []collision {
	baseLens := []int{3, 4, 5, 6, 8, 11}
	type cell struct {
		hash string
		l    int
	}
	base := map[cell][]collision{}
	for _, l := range baseLens {
		cands := make([][]byte, n)
		buf := make([]byte, n*l)
		for i := range cands {
			c := buf[i*l : (i+1)*l]
			for j := range c {
				if l <= 4 {
					c[j] = byte(rng.U64() >> 11)
				} else {
					c[j] = alnum[rng.Intn(len(alnum))]
				}
			}
			cands[i] = c
		}
		keys := make([]uint64, n)
		for _, h := range cheapHashes {
			for _, bits := range []uint{32} {
				name := h.name
				m := n
				if bits == 16 {
					name += "/16"
					m = 4096 // a 16-bit value collides among a few thousand candidates
					if m > n {
						m = n
					}
				}
				ks := keys[:m]
				for i := 0; i < m; i++ {
					v := h.f(cands[i])
					if bits == 16 {
						v &= 0xffff
					}
					ks[i] = uint64(v)<<32 | uint64(i)
				}
				sort.Slice(ks, func(a, b int) bool { return ks[a] < ks[b] })
				var found []collision
				for i := 0; i+1 < m && len(found) < perCell; {
					j := i + 1
					for j < m && ks[j]>>32 == ks[i]>>32 {
						j++
					}
					if j-i >= 2 {
						var vals [][]byte
						for k := i; k < j && len(vals) < 3; k++ {
							c := cands[uint32(ks[k])]
							dup := false
							for _, v := range vals {
								if string(v) == string(c) {
									dup = true
								}
							}
							if !dup {
								vals = append(vals, c)
							}
						}
						if len(vals) >= 2 {
							found = append(found, collision{name, vals})
						}
					}
					i = j
				}
				base[cell{name, l}] = found
			}
		}
	}
	// every wanted length: a base collision of the largest base length <= l, extended by a common random suffix
	var out []collision
	for _, h := range cheapHashes {
		for _, suffix := range []string{"", "/16"} {
			name := h.name + suffix
			for _, l := range wantLens {
				if suffix == "/16" {
					// equal 16-bit truncations do not mean equal hash states: no suffix argument, search this length directly
					out = append(out, direct16(rng, h, l, perCell)...)
					continue
				}
				var src []collision
				bl := 0
				for _, b := range baseLens {
					if b <= l && len(base[cell{name, b}]) > 0 {
						src, bl = base[cell{name, b}], b
					}
				}
				for _, col := range src {
					tail := make([]byte, l-bl)
					for j := range tail {
						tail[j] = alnum[rng.Intn(len(alnum))]
					}
					ext := collision{hash: name}
					for _, v := range col.vals {
						ext.vals = append(ext.vals, append(append([]byte(nil), v...), tail...))
					}
					// re-check (the suffix argument holds for these hashes; keep only verified sets)
					ok := true
					for _, v := range ext.vals[1:] {
						a, b := h.f(v), h.f(ext.vals[0])
						if suffix == "/16" {
							a, b = a&0xffff, b&0xffff
						}
						if a != b || string(v) == string(ext.vals[0]) {
							ok = false
						}
					}
					if ok {
						out = append(out, ext)
					}
				}
			}
		}
	}
	return out
}
