// C01 harness: loom.Queue under the controlled scheduler, step-level correspondence with the Lean
// model (schedule sets with transition coverage come from `drv_msqueue explore`), see msq/msq.go.
package main

import (
	"verif/harness/cmd/c01/msq"
	"verif/harness/hx"
)

func main() { hx.Main(msq.GenC01, msq.Exec) }
