// Long-history / many-thread schedule classes for loom.Queue (C01 and C02).
//
// The classes in this file are GENERIC searches for faults that depend on state carried across hundreds or
// thousands of operations on one queue object, or on more threads than the explored configurations have:
//
//	long stall     one operation suspended before one of its shared accesses (in particular before each kind of
//	               CAS: link, swing, helping swing, head) while the other threads complete N ∈ {130, 300, 1100}
//	               operations on the same queue, then resumed; the queue is drained through the API.  While the
//	               victim sleeps the harness WATCHES THE CELL the victim is parked before: the moment the cell
//	               holds again the value it held when the victim went to sleep, after having held another one
//	               (A-B-A), the victim is resumed at once (the real code never shows A-B-A on these cells as long
//	               as a sleeping goroutine keeps its node alive; any recycling scheme does).
//	frozen helpers one pusher frozen between its link CAS and its tail CAS, k ∈ {3..8} further operations frozen
//	               at their next CAS (after having observed the lagging tail), prefilled or empty queue;
//	               C02: one more operation then runs solo (K-bound); C01: everybody resumes in random order.
//	hot queue      W ∈ {1100, 2200, …} LOST link-CAS races on ONE queue object (two pushers alternating at the
//	               link step, a popper keeping the queue short) before the scenario proper (frozen pusher + solo
//	               operation, frozen helpers, random short scenario).
//	reused object  many short random scenarios one after the other on the same queue object (long random lines).
//
// Every line is an ordinary `prog … | sched … [| solo t]` line: the Lean driver replays it step by step.
// Programs are trimmed to the operations that were actually invoked, so the drain after the schedule is short.
package msq

import (
	"fmt"
	"sync/atomic"
	"unsafe"

	"verif/harness/hx"
)

// trimmed cuts every thread's program down to the operations invoked so far in run r (at least one stays).
func (r *runner) trimmed() [][]opK {
	out := make([][]opK, len(r.prog))
	for t, ops := range r.prog {
		n := r.nextOp[t]
		if n < 1 {
			n = 1
		}
		if n > len(ops) {
			n = len(ops)
		}
		out[t] = ops[:n]
	}
	return out
}

// cellWatch detects A-B-A on one memory cell.
type cellWatch struct {
	cell    *unsafe.Pointer
	v0      unsafe.Pointer
	changed bool
}

func (r *runner) watch(t int) *cellWatch {
	if !r.busy(t) {
		return nil
	}
	cell := (*unsafe.Pointer)(r.s.Pending(t).Ptr)
	return &cellWatch{cell: cell, v0: atomic.LoadPointer(cell)}
}

// aba reports (once the cell has held another value) that it holds the original value again.
func (w *cellWatch) aba() bool {
	if w == nil {
		return false
	}
	cur := atomic.LoadPointer(w.cell)
	if cur != w.v0 {
		w.changed = true
		return false
	}
	return w.changed
}

// stallSpec: one long-stall case.
type stallSpec struct {
	victimPush bool
	j          int  // number of shared accesses the victim performs before it is suspended
	n          int  // operations the other threads complete while the victim sleeps
	shape      int  // programs of the other threads
	prefix     int  // operations completed before the victim is invoked
	lag        bool // a pusher is suspended between its link CAS and its tail CAS when the victim is invoked
	interleave bool // the others are interleaved step by step (else: solo bursts, one complete operation each)
	solo       bool // C02: the victim is not resumed by the schedule; it runs SOLO from there (`| solo 0`), the others frozen
	early      int  // >0: the victim is resumed after `early` operations already and the others go on (second stall)
}

func longStallX(c *hx.Ctx, sp stallSpec) {
	v := 99
	var prog [][]opK
	if sp.victimPush {
		prog = append(prog, []opK{{push: true, v: 1}})
	} else {
		prog = append(prog, []opK{{}})
	}
	m := sp.n + sp.prefix + 8
	switch sp.shape {
	case 0:
		prog = append(prog, pairs(m, &v))
	case 1:
		prog = append(prog, pairs(m, &v), pops(m))
	case 2:
		prog = append(prog, pairs(m, &v), pairs(m, &v))
	default:
		prog = append(prog, pushes(m, &v), pops(m))
	}
	lagT := -1
	if sp.lag {
		lagT = len(prog)
		v++
		prog = append(prog, []opK{{push: true, v: v}})
	}
	r := newRunner(prog)
	var sched []int
	others := len(prog) - 1
	if sp.lag {
		others--
	}
	for i := 0; i < sp.prefix; i++ {
		r.completeOp(1+i%others, &sched)
	}
	if sp.lag {
		r.runUntil(lagT, &sched, 3*K, func() bool { return r.linked[lagT] && r.pendingCas(lagT, "tail") })
	}
	r.rec(0, &sched) // the victim's invocation
	for k := 0; k < sp.j && r.busy(0); k++ {
		r.rec(0, &sched)
	}
	w := r.watch(0)
	done, fired, earlyDone := 0, false, false
	stepCap := 16*sp.n + 500 // a healthy queue needs ~6 steps per operation; a broken one must not make the generator crawl
	for guard := 0; done < sp.n && guard < 40*sp.n && !fired && len(sched) < stepCap; guard++ {
		var lv []int
		for t := 1; t < len(prog); t++ {
			if r.live(t) {
				lv = append(lv, t)
			}
		}
		if len(lv) == 0 {
			break
		}
		t := c.Rng.Pick(lv)
		if sp.interleave || t == lagT {
			wasBusy := r.busy(t)
			r.rec(t, &sched)
			if wasBusy && !r.busy(t) {
				done++
			}
			fired = w.aba()
		} else {
			// one complete operation of thread t, running alone; the watched cell is looked at after every step
			r.rec(t, &sched)
			fired = w.aba()
			for k := 0; k < 4*K && r.busy(t) && !fired; k++ {
				r.rec(t, &sched)
				fired = w.aba()
			}
			if !r.busy(t) {
				done++
			}
		}
		if sp.early > 0 && done >= sp.early && !earlyDone && r.busy(0) && !fired {
			earlyDone = true
			// intermediate resume: the victim performs the access it slept before and sleeps again before the next one
			r.rec(0, &sched)
			w = r.watch(0)
		}
	}
	if sp.solo {
		tr := r.trimmed()
		busy := r.busy(0)
		r.drain(false)
		if busy {
			c.Emit("prog %s | sched %s | solo 0", showProg(tr), schedStr(sched))
			c.Count("long_stall_then_solo")
		}
		return
	}
	// the victim resumes and finishes; what the others have started is finished by the drain
	for k := 0; k < 4*K && r.busy(0); k++ {
		r.rec(0, &sched)
	}
	tr := r.trimmed()
	r.drain(false)
	c.Emit("prog %s | sched %s", showProg(tr), schedStr(sched))
	c.Count("long_stall")
	switch {
	case sp.n < 130:
		c.Count("long_stall_ops_lt130")
	case sp.n < 300:
		c.Count("long_stall_ops_130_299")
	case sp.n < 1100:
		c.Count("long_stall_ops_300_1099")
	default:
		c.Count("long_stall_ops_ge1100")
	}
	if fired {
		c.Count("long_stall_ABA_on_watched_cell")
	}
}

// genStallSolo (C02): the victim sleeps before each kind of CAS / a load while N ∈ {130, 300} operations complete (thorough: up
// to 1100), some of them left in the middle (interleaved variant); then it runs alone and must return within K own steps.
func genStallSolo(c *hx.Ctx) {
	type park struct {
		push bool
		j    int
		lag  bool
	}
	points := []park{{true, 3, false}, {true, 4, false}, {true, 3, true}, {false, 4, false}, {false, 4, true},
		{true, 1, false}, {false, 2, false}, {false, 1, true}}
	for _, n := range []int{130, 300} {
		for _, p := range points {
			longStallX(c, stallSpec{victimPush: p.push, j: p.j, n: n, shape: c.Rng.Intn(4), prefix: c.Rng.Range(1, 2), lag: p.lag,
				interleave: c.Rng.Intn(3) == 0, solo: true})
		}
	}
	extra := c.Budget(0, 120)
	for i := 0; i < extra; i++ {
		p := points[c.Rng.Intn(len(points))]
		n := c.Rng.Pick([]int{130, 200, 300})
		if c.Rng.Intn(8) == 0 {
			n = c.Rng.Pick([]int{600, 1100})
		}
		longStallX(c, stallSpec{victimPush: p.push, j: p.j, n: n, shape: c.Rng.Intn(4), prefix: c.Rng.Range(0, 6), lag: p.lag,
			interleave: c.Rng.Bool(), solo: true})
	}
}

// genLongStallX: the victim before each kind of CAS (and each load) × N × shapes.
func genLongStallX(c *hx.Ctx) {
	type park struct {
		push bool
		j    int
		lag  bool
	}
	casPoints := []park{
		{true, 3, false},  // before the link CAS
		{true, 4, false},  // before the swing CAS (own node linked)
		{true, 3, true},   // before the helping swing CAS
		{false, 4, false}, // before the head CAS (needs a non-empty queue: odd prefixes / shapes 2,3)
		{false, 4, true},  // before the helping swing CAS of Pop (empty queue, lagging tail)
	}
	loadPoints := []park{{true, 0, false}, {true, 1, false}, {true, 2, false}, {false, 0, false}, {false, 1, false},
		{false, 2, false}, {false, 3, false}, {true, 1, true}, {false, 2, true}}
	// N = 130: every CAS point × every shape, every load point once.  N = 300 (a line costs the model driver ~0.3 s):
	// quick = the head CAS × every shape, the other CAS points × one shape, two load points; thorough = the full grid.
	// N = 1100 (~4 s per line in the model driver): quick = ONE CAS point (rotating with the seed); thorough = all CAS points × two shapes.
	for _, n := range []int{130, 300} {
		for pi, p := range casPoints {
			shapes := []int{0, 1, 2, 3}
			if n == 300 && !c.Thorough() && pi != 3 {
				shapes = []int{c.Rng.Intn(4)}
			}
			for _, shape := range shapes {
				prefixes := []int{1 + c.Rng.Intn(2)}
				if c.Thorough() {
					prefixes = []int{1, 2}
				}
				for _, prefix := range prefixes {
					longStallX(c, stallSpec{victimPush: p.push, j: p.j, n: n, shape: shape, prefix: prefix, lag: p.lag})
				}
			}
		}
		lps := loadPoints
		if n == 300 && !c.Thorough() {
			lps = []park{loadPoints[c.Rng.Intn(len(loadPoints))], loadPoints[c.Rng.Intn(len(loadPoints))]}
		}
		for _, p := range lps {
			longStallX(c, stallSpec{victimPush: p.push, j: p.j, n: n, shape: c.Rng.Intn(4), prefix: c.Rng.Range(0, 3), lag: p.lag})
		}
	}
	big := []park{casPoints[c.Rng.Intn(len(casPoints))]}
	if c.Thorough() {
		big = casPoints
	}
	for _, p := range big {
		shapes := []int{c.Rng.Intn(4)}
		if c.Thorough() {
			shapes = []int{c.Rng.Intn(2), 2 + c.Rng.Intn(2)}
		}
		for _, shape := range shapes {
			longStallX(c, stallSpec{victimPush: p.push, j: p.j, n: 1100, shape: shape, prefix: c.Rng.Range(1, 2), lag: p.lag})
		}
	}
	extra := c.Budget(10, 240)
	for i := 0; i < extra; i++ {
		p := casPoints[c.Rng.Intn(len(casPoints))]
		if c.Rng.Intn(3) == 0 {
			p = loadPoints[c.Rng.Intn(len(loadPoints))]
		}
		n := c.Rng.Pick([]int{130, 130, 200, 300})
		if c.Thorough() && c.Rng.Intn(20) == 0 {
			n = c.Rng.Pick([]int{600, 1100})
		}
		sp := stallSpec{victimPush: p.push, j: p.j, n: n, shape: c.Rng.Intn(4), prefix: c.Rng.Range(0, 6), lag: p.lag,
			interleave: c.Rng.Intn(3) == 0}
		if c.Rng.Intn(4) == 0 {
			sp.early = c.Rng.Range(1, n-1)
		}
		longStallX(c, sp)
	}
}

// ---------------------------------------------------------------- hot queue + frozen helpers

// frozenSpec: one "hot prefix + frozen threads" case.
type frozenSpec struct {
	hot        int  // lost link-CAS races forced on the queue before the scenario (0: none)
	hotThreads int  // number of pushers contending in the hot prefix (>= 2)
	soloOnly   int  // C02: 0 = one line per solo candidate; 1 = only the fresh Push; 2 = only the fresh Pop; 3 = one at random
	hotPops    bool // a popper removes what the hot pushers add (keeps the queue short, retires nodes)
	prefill    int  // values in the queue when the scenario starts (after the hot prefix)
	owner      bool // a pusher is frozen between its link CAS and its tail CAS
	k          int  // helpers frozen at their next CAS
	popMask    int  // bit i set: helper i is a Pop (else a Push)
	anyCas     bool // helpers stop before their first CAS of any kind (else: before a CAS on tail, or at completion)
	randomTail int  // C01: >0 = that many extra threads with a short random program, interleaved at random afterwards
}

type frozenRun struct {
	r       *runner
	sched   []int
	owner   int
	helpers []int
	soloPu  int
	soloPo  int
	extra   []int
	lost    int
}

// hotPrefix forces at least `w` lost link-CAS races on the queue: the contenders (pushers) are all brought in front
// of the link CAS on the same tail.next; one of them (round robin) wins, every other one loses and re-reads; the
// winner swings the tail, returns and joins again with its next Push.  4 + 6/(len(cs)-1) steps per lost race.
// Thread p (if >= 0) pops one value per round.
func (r *runner) hotPrefix(sched *[]int, cs []int, p, w int) int {
	lost := 0
	atLink := func(t int) func() bool { return func() bool { return r.pendingCas(t, "next") } }
	ok := true
	for round := 0; ok && lost < w; round++ {
		for _, t := range cs {
			ok = ok && r.runUntil(t, sched, 3*K, atLink(t))
		}
		if !ok {
			break
		}
		win := cs[round%len(cs)]
		r.rec(win, sched) // link CAS ok
		for _, t := range cs {
			if t != win {
				before := r.failedCas
				r.rec(t, sched) // link CAS fails
				if r.failedCas > before {
					lost++
				}
			}
		}
		for k := 0; k < 3*K && r.busy(win); k++ { // the winner swings the tail and returns
			r.rec(win, sched)
		}
		if p >= 0 {
			r.completeOp(p, sched)
		}
	}
	for _, t := range cs { // everybody finishes the Push it is in
		before := r.failedCas
		for k := 0; k < 4*K && r.busy(t); k++ {
			r.rec(t, sched)
		}
		lost += r.failedCas - before
	}
	return lost
}

func buildFrozen(c *hx.Ctx, sp frozenSpec) *frozenRun {
	v := 0
	f := &frozenRun{owner: -1, soloPu: -1, soloPo: -1}
	var prog [][]opK
	add := func(ops []opK) int { prog = append(prog, ops); return len(prog) - 1 }
	f.owner = add(pushes(1, &v))
	for i := 0; i < sp.k; i++ {
		if sp.popMask>>uint(i)&1 == 1 {
			f.helpers = append(f.helpers, add(pops(1)))
		} else {
			f.helpers = append(f.helpers, add(pushes(1, &v)))
		}
	}
	f.soloPu = add(pushes(1, &v))
	f.soloPo = add(pops(1))
	for i := 0; i < sp.randomTail; i++ {
		var ops []opK
		for j := c.Rng.Range(1, 4); j > 0; j-- {
			if c.Rng.Bool() {
				v++
				ops = append(ops, opK{push: true, v: v})
			} else {
				ops = append(ops, opK{})
			}
		}
		f.extra = append(f.extra, add(ops))
	}
	hotP, pre := -1, -1
	var hotCs []int
	if sp.hot > 0 {
		v = 999
		n := sp.hotThreads
		if n < 2 {
			n = 2
		}
		rounds := sp.hot/(n-1) + 2
		for i := 0; i < n; i++ {
			hotCs = append(hotCs, add(pushes(rounds/n+3, &v)))
		}
		if sp.hotPops {
			hotP = add(pops(rounds + 2))
		}
	}
	if sp.prefill > 0 {
		v = 499
		pre = add(pushes(sp.prefill, &v))
	}
	r := newRunner(prog)
	f.r = r
	if sp.hot > 0 {
		f.lost = r.hotPrefix(&f.sched, hotCs, hotP, sp.hot)
	}
	for i := 0; i < sp.prefill; i++ {
		r.completeOp(pre, &f.sched)
	}
	if sp.owner {
		r.runUntil(f.owner, &f.sched, 3*K, func() bool { return r.linked[f.owner] && r.pendingCas(f.owner, "tail") })
	} else {
		r.completeOp(f.owner, &f.sched)
	}
	for _, h := range f.helpers {
		h := h
		stop := func() bool { return r.pendingCas(h, "tail") }
		if sp.anyCas {
			stop = func() bool { return r.pendingCas(h, "tail") || r.pendingCas(h, "head") || r.pendingCas(h, "next") }
		}
		r.runUntil(h, &f.sched, 3*K, stop)
	}
	return f
}

func (f *frozenRun) frozenCount() int {
	n := 0
	for _, h := range f.helpers {
		if f.r.busy(h) {
			n++
		}
	}
	return n
}

// frozenC02: the prefix + one line per solo candidate (a fresh Push, a fresh Pop, the first and the last helper, the owner).
func frozenC02(c *hx.Ctx, sp frozenSpec, class string) {
	f := buildFrozen(c, sp)
	r := f.r
	r.rec(f.soloPu, &f.sched) // invocations: both fresh operations are inside their operation, before their first access
	r.rec(f.soloPo, &f.sched)
	cands := []int{f.soloPu, f.soloPo}
	if len(f.helpers) > 0 {
		cands = append(cands, f.helpers[0], f.helpers[len(f.helpers)-1])
	}
	cands = append(cands, f.owner)
	switch sp.soloOnly {
	case 1:
		cands = []int{f.soloPu}
	case 2:
		cands = []int{f.soloPo}
	case 3:
		var b []int
		for _, t := range cands {
			if r.busy(t) {
				b = append(b, t)
			}
		}
		if len(b) > 0 {
			cands = []int{c.Rng.Pick(b)}
		}
	}
	prog := showProg(r.trimmed())
	ss := schedStr(f.sched)
	frozen := f.frozenCount()
	seen := map[int]bool{}
	for _, t := range cands {
		if seen[t] || !r.busy(t) {
			continue
		}
		seen[t] = true
		c.Emit("prog %s | sched %s | solo %d", prog, ss, t)
		c.Count(class)
	}
	r.drain(false)
	c.Count(fmt.Sprintf("%s_frozen_at_cas_%d", class, frozen))
	if sp.hot > 0 {
		c.Stats["max_lost_link_races_in_one_line"] = max(c.Stats["max_lost_link_races_in_one_line"], f.lost)
	}
}

// frozenC01: the same prefix; then everybody (helpers, owner, two fresh operations, the random extra threads)
// resumes under a random step-level interleaving, and the queue is drained through the API.
func frozenC01(c *hx.Ctx, sp frozenSpec, class string) {
	f := buildFrozen(c, sp)
	r := f.r
	frozen := f.frozenCount()
	ts := append([]int{f.owner, f.soloPu, f.soloPo}, f.helpers...)
	ts = append(ts, f.extra...)
	burst, cur := 0, -1
	for guard := 0; guard < 4000; guard++ {
		var lv []int
		for _, t := range ts {
			if r.live(t) {
				lv = append(lv, t)
			}
		}
		if len(lv) == 0 {
			break
		}
		if burst <= 0 || !r.live(cur) {
			cur = c.Rng.Pick(lv)
			burst = c.Rng.Range(1, 5)
		}
		burst--
		r.rec(cur, &f.sched)
	}
	tr := r.trimmed()
	r.drain(false)
	c.Emit("prog %s | sched %s", showProg(tr), schedStr(f.sched))
	c.Count(class)
	c.Count(fmt.Sprintf("%s_frozen_at_cas_%d", class, frozen))
	if sp.hot > 0 {
		c.Stats["max_lost_link_races_in_one_line"] = max(c.Stats["max_lost_link_races_in_one_line"], f.lost)
	}
}

func max(a, b int) int {
	if a > b {
		return a
	}
	return b
}

// genFrozen: k = 3..8 frozen helpers × {empty, prefilled queue} × {owner frozen, owner finished} × helper mixes.
func genFrozen(c *hx.Ctx, c02 bool) {
	emit := frozenC01
	if c02 {
		emit = frozenC02
	}
	for k := 3; k <= 8; k++ {
		full := 1<<uint(k) - 1
		masks := []int{0, full, 0x55 & full, c.Rng.Intn(full + 1)}
		for _, mask := range masks {
			emit(c, frozenSpec{owner: true, k: k, popMask: mask}, "frozen_helpers")
		}
		emit(c, frozenSpec{owner: true, k: k, popMask: c.Rng.Intn(full + 1), prefill: c.Rng.Range(1, 3), anyCas: true}, "frozen_helpers")
		emit(c, frozenSpec{owner: false, k: k, popMask: c.Rng.Intn(full + 1), prefill: c.Rng.Range(0, 2), anyCas: true}, "frozen_helpers")
	}
	extra := c.Budget(10, 300)
	for i := 0; i < extra; i++ {
		k := c.Rng.Range(3, 8)
		emit(c, frozenSpec{owner: c.Rng.Intn(4) != 0, k: k, popMask: c.Rng.Intn(1 << uint(k)), prefill: c.Rng.Intn(3),
			anyCas: c.Rng.Bool(), randomTail: c.Rng.Intn(3)}, "frozen_helpers")
	}
}

// genHot: hot-queue prefixes (W lost link races on one queue object) followed by the short scenarios.
// A line with W = 1100 has ~6-8 thousand schedule entries (the model driver needs ~2 s for it), so there are few.
func genHot(c *hx.Ctx, c02 bool) {
	emit := frozenC01
	if c02 {
		emit = frozenC02
	}
	ws := []int{1100}
	if c.Thorough() {
		ws = []int{1100, 2200, 3300}
	}
	for _, w := range ws {
		// frozen pusher + solo Push / solo Pop after the hot prefix; then frozen helpers / random scenario as well
		emit(c, frozenSpec{hot: w, hotThreads: 5, hotPops: !c02, owner: true, k: 0, soloOnly: 1}, "hot_queue")
		emit(c, frozenSpec{hot: w, hotThreads: c.Rng.Range(2, 6), hotPops: true, owner: true, k: c.Rng.Range(1, 5), popMask: c.Rng.Intn(32),
			prefill: c.Rng.Intn(2), randomTail: c.Rng.Intn(3), soloOnly: 3}, "hot_queue")
	}
	extra := c.Budget(4, 60)
	for i := 0; i < extra; i++ {
		w := c.Rng.Pick([]int{130, 300, 520})
		if c.Thorough() && c.Rng.Intn(5) == 0 {
			w = c.Rng.Pick([]int{1100, 2200})
		}
		emit(c, frozenSpec{hot: w, hotThreads: c.Rng.Range(2, 6), hotPops: c.Rng.Bool(), owner: c.Rng.Intn(4) != 0, k: c.Rng.Range(0, 6),
			popMask: c.Rng.Intn(64), prefill: c.Rng.Intn(3), anyCas: c.Rng.Bool(), randomTail: c.Rng.Intn(3), soloOnly: 3}, "hot_queue")
	}
}

// genReuse: ONE queue object living through many short scenarios: 3-4 threads with 30-120 operations each under a
// random / bursty / PCT schedule (C01: whole run; C02: cut at a random point, a random busy thread runs solo).
func genReuse(c *hx.Ctx, c02 bool) {
	n := c.Budget(8, 80)
	for i := 0; i < n; i++ {
		threads := c.Rng.Range(3, 4)
		per := c.Rng.Pick([]int{30, 60, 120})
		prog := make([][]opK, threads)
		v := 0
		for t := range prog {
			for j := 0; j < per; j++ {
				if c.Rng.Intn(100) < 52 {
					v++
					prog[t] = append(prog[t], opK{push: true, v: v})
				} else {
					prog[t] = append(prog[t], opK{})
				}
			}
		}
		policy := c.Rng.Intn(3)
		full := randScheduleN(c, prog, policy, -1, 16*threads*per) // ~7 steps per operation when healthy
		if !c02 {
			c.Emit("prog %s | sched %s", showProg(prog), schedStr(full))
			c.Count("reused_object_long_random")
			continue
		}
		if len(full) < 2 {
			continue
		}
		cut := c.Rng.Range(len(full)/2, len(full)-1)
		r := newRunner(prog)
		for _, t := range full[:cut] {
			r.step(t)
		}
		var busy []int
		for t := range prog {
			if r.busy(t) {
				busy = append(busy, t)
			}
		}
		tr := r.trimmed()
		r.drain(false)
		if len(busy) == 0 {
			continue
		}
		c.Emit("prog %s | sched %s | solo %d", showProg(tr), schedStr(full[:cut]), c.Rng.Pick(busy))
		c.Count("reused_object_long_random")
	}
}
