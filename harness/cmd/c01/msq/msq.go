// Package msq: controlled-scheduler harness for loom.Queue (properties C01 and C02).
//
// script line:  prog 0:push1,pop 1:push2 | sched 0 0 1 1 0 …              (C01)
//               prog 0:push1,pop 1:push2 | sched 0 0 1 | solo 1            (C02)
// Each thread runs its operations on one fresh real loom.Queue under csched (build tag verif: every
// queueLoad/queueCas parks in the hook first).  One schedule entry `t` lets thread t perform ONE step:
// the invocation of its next operation if it is between operations, otherwise the shared access it is
// parked before plus the local code up to the next access.  After the schedule the remaining work is
// drained (lowest live thread first).  Logged per step: tid, kind of access (ld|cas), class of the address
// (head | tail | n<k>.next, k = link order of the node), loaded node / CAS outcome, and every return value.
// The same line is printed by the Lean driver from the model (lean/Got/Drv/MSQueue.lean).
package msq

import (
	"bufio"
	"fmt"
	"os"
	"os/exec"
	"runtime"
	"strconv"
	"strings"
	"sync"
	"sync/atomic"
	"unsafe"

	"github.com/lixianmin/got/loom"
	"verif/harness/csched"
	"verif/harness/hx"
)

const (
	K        = 13     // solo bound (C02)
	soloCap  = 10 * K // a thread not returning within 10·K own steps is reported as spinning
	drainCap = 5000
	maxChain = 4096 // bound of the list walk (a mutant may create a cycle)
)

type opK struct {
	push bool
	v    int
}

var nextOff uintptr

func init() {
	var probe [64]byte
	p := unsafe.Pointer(&probe[32])
	nextOff = uintptr(p) - uintptr(loom.VerifNodeOfNext(p))
}

func parseProg(ws []string) ([][]opK, error) {
	var prog [][]opK
	for i, w := range ws {
		parts := strings.SplitN(w, ":", 2)
		if len(parts) != 2 || parts[0] != strconv.Itoa(i) {
			return nil, fmt.Errorf("bad thread %q", w)
		}
		var ops []opK
		for _, o := range strings.Split(parts[1], ",") {
			if o == "pop" {
				ops = append(ops, opK{})
			} else if strings.HasPrefix(o, "push") {
				v, err := strconv.Atoi(o[4:])
				if err != nil {
					return nil, err
				}
				ops = append(ops, opK{push: true, v: v})
			} else {
				return nil, fmt.Errorf("bad op %q", o)
			}
		}
		prog = append(prog, ops)
	}
	return prog, nil
}

func showProg(prog [][]opK) string {
	var ts []string
	for i, ops := range prog {
		var os []string
		for _, o := range ops {
			if o.push {
				os = append(os, "push"+strconv.Itoa(o.v))
			} else {
				os = append(os, "pop")
			}
		}
		ts = append(ts, strconv.Itoa(i)+":"+strings.Join(os, ","))
	}
	return strings.Join(ts, " ")
}

type runner struct {
	q         *loom.Queue
	s         *csched.Sched
	prog      [][]opK
	headAddr  unsafe.Pointer
	tailAddr  unsafe.Pointer
	dummy     unsafe.Pointer
	ids       map[unsafe.Pointer]int
	nextOp    []int    // index of the next operation each thread will invoke
	ret       []string // return token of the operation that just finished
	crashed   []bool
	linked    []bool // the thread's previous step was its own successful CAS on a next field
	failedCas int
	helpCas   int
	restStop  bool
	restRet   any
	restCrash bool
}

func loadNext(node unsafe.Pointer) unsafe.Pointer {
	return atomic.LoadPointer((*unsafe.Pointer)(unsafe.Add(node, nextOff)))
}

// refresh walks the list from the initial dummy and numbers unseen nodes in link order.
func (r *runner) refresh() []unsafe.Pointer {
	var chain []unsafe.Pointer
	for n, k := r.dummy, 0; n != nil && k < maxChain; n, k = loadNext(n), k+1 {
		if _, ok := r.ids[n]; !ok {
			r.ids[n] = len(r.ids)
		}
		chain = append(chain, n)
	}
	return chain
}

func (r *runner) name(n unsafe.Pointer) string {
	if n == nil {
		return "nil"
	}
	if id, ok := r.ids[n]; ok {
		return "n" + strconv.Itoa(id)
	}
	return "u?"
}

func (r *runner) loc(p unsafe.Pointer) string {
	switch p {
	case r.headAddr:
		return "head"
	case r.tailAddr:
		return "tail"
	}
	return r.name(loom.VerifNodeOfNext(p)) + ".next"
}

func newRunner(prog [][]opK) *runner {
	r := &runner{prog: prog, q: loom.NewQueue(), ids: map[unsafe.Pointer]int{}}
	n := len(prog)
	r.s = csched.New(n + 1) // thread n: the final "pop until nil" client
	loom.VerifHook = r.s.Hook
	r.headAddr, r.tailAddr = r.q.VerifQueueAddrs()
	r.dummy, _ = r.q.VerifQueueHeadTail()
	r.nextOp = make([]int, n)
	r.ret = make([]string, n)
	r.crashed = make([]bool, n)
	r.linked = make([]bool, n)
	r.refresh()
	for tid := range prog {
		tid := tid
		r.s.Start(tid, func() {
			for _, op := range r.prog[tid] {
				r.s.Hook(0, nil) // between operations: the thread is idle until scheduled
				if !r.runOp(tid, op) {
					return
				}
			}
		})
	}
	return r
}

func (r *runner) runOp(tid int, op opK) (ok bool) {
	defer func() {
		if e := recover(); e != nil {
			r.crashed[tid] = true
			ok = false
		}
	}()
	if op.push {
		r.q.Push(op.v)
		r.ret[tid] = fmt.Sprintf("%d:ret:push", tid)
	} else {
		switch v := r.q.Pop().(type) {
		case nil:
			r.ret[tid] = fmt.Sprintf("%d:ret:pop=nil", tid)
		case int:
			r.ret[tid] = fmt.Sprintf("%d:ret:pop=%d", tid, v)
		default:
			r.ret[tid] = fmt.Sprintf("%d:ret:pop=?%v", tid, v)
		}
	}
	return true
}

func (r *runner) live(tid int) bool { return tid >= 0 && tid < len(r.prog) && r.s.Live(tid) }

// busy: inside an operation (parked before a shared access)
func (r *runner) busy(tid int) bool { return r.live(tid) && r.s.Pending(tid).Site != 0 }

func (r *runner) firstLive() int {
	for t := range r.prog {
		if r.live(t) {
			return t
		}
	}
	return -1
}

// step performs one schedule entry and returns its tokens.
func (r *runner) step(tid int) []string {
	if !r.live(tid) {
		return []string{fmt.Sprintf("%d:skip", tid)}
	}
	pe := r.s.Pending(tid)
	if pe.Site == 0 { // invocation
		op := r.prog[tid][r.nextOp[tid]]
		r.nextOp[tid]++
		r.linked[tid] = false
		ev := r.s.Step(tid)
		var toks []string
		if op.push {
			toks = append(toks, fmt.Sprintf("%d:inv:push:%d", tid, op.v))
		} else {
			toks = append(toks, fmt.Sprintf("%d:inv:pop", tid))
		}
		return append(toks, r.after(tid, ev)...)
	}
	cell := (*unsafe.Pointer)(pe.Ptr)
	before := atomic.LoadPointer(cell)
	loc := r.loc(pe.Ptr)
	var tok string
	var ev csched.Event
	switch pe.Site {
	case loom.VerifQueueLoad:
		tok = fmt.Sprintf("%d:ld:%s=%s", tid, loc, r.name(before))
		ev = r.s.Step(tid)
		r.linked[tid] = false
	case loom.VerifQueueCas:
		ev = r.s.Step(tid)
		okc := atomic.LoadPointer(cell) != before
		res := "fail"
		if okc {
			res = "ok"
		} else {
			r.failedCas++
		}
		if loc == "tail" && !r.linked[tid] {
			r.helpCas++
		}
		r.linked[tid] = okc && loc != "tail" && loc != "head"
		tok = fmt.Sprintf("%d:cas:%s:%s", tid, loc, res)
	default:
		ev = r.s.Step(tid)
		tok = fmt.Sprintf("%d:site%d", tid, pe.Site)
	}
	r.refresh()
	return append([]string{tok}, r.after(tid, ev)...)
}

// after: tokens for what happened after the access (return of the operation, crash, blocked)
func (r *runner) after(tid int, ev csched.Event) []string {
	if ev.Blocked {
		return []string{fmt.Sprintf("%d:blocked", tid)}
	}
	if r.crashed[tid] {
		r.crashed[tid] = false
		return []string{fmt.Sprintf("%d:crash", tid)}
	}
	if ev.Done || ev.Site == 0 {
		if t := r.ret[tid]; t != "" {
			r.ret[tid] = ""
			return []string{t}
		}
	}
	return nil
}

func (r *runner) drain(log bool) []string {
	var toks []string
	for k := 0; ; k++ {
		t := r.firstLive()
		if t < 0 {
			return toks
		}
		if k >= drainCap {
			return append(toks, "stuck")
		}
		x := r.step(t)
		if log {
			toks = append(toks, x...)
		}
	}
}

// rest: after everything finished, an extra controlled thread pops through the real API until it gets
// nil (what is left in the queue); one unit of fuel per step, so a spinning Pop cannot hang the harness.
func (r *runner) rest() string {
	T := len(r.prog)
	r.s.Start(T, func() {
		for {
			r.s.Hook(0, nil)
			if r.restStop {
				return
			}
			func() {
				defer func() {
					if e := recover(); e != nil {
						r.restCrash = true
					}
				}()
				r.restRet = r.q.Pop()
			}()
			if r.restCrash {
				return
			}
		}
	})
	var out []string
	for fuel := drainCap; ; fuel-- {
		if fuel == 0 {
			out = append(out, "stuck")
			break
		}
		wasIdle := r.s.Pending(T).Site == 0
		ev := r.s.Step(T)
		if r.restCrash || ev.Blocked {
			out = append(out, "crash")
			break
		}
		if !wasIdle && ev.Site == 0 { // the Pop returned
			if v, ok := r.restRet.(int); ok {
				out = append(out, strconv.Itoa(v))
			} else if r.restRet == nil {
				out = append(out, "nil")
				r.restStop = true
				r.s.Step(T)
				break
			} else {
				out = append(out, fmt.Sprintf("?%v", r.restRet))
			}
		}
	}
	return "rest=" + strings.Join(out, ",")
}

func (r *runner) final() string {
	chain := r.refresh()
	var vals []string
	for _, n := range chain {
		switch v := (*(*any)(n)).(type) {
		case nil:
			vals = append(vals, "_")
		case int:
			vals = append(vals, strconv.Itoa(v))
		default:
			vals = append(vals, fmt.Sprintf("?%v", v))
		}
	}
	h, t := r.q.VerifQueueHeadTail()
	return fmt.Sprintf("final head=%s tail=%s chain=%s", r.name(h), r.name(t), strings.Join(vals, ","))
}

// Exec runs one script line on the real code.
func Exec(c *hx.Ctx, line string) string {
	if strings.HasPrefix(line, "stress ") {
		return execStress(c, line)
	}
	parts := strings.Split(line, " | ")
	if len(parts) < 2 {
		return "bad-line"
	}
	pw, sw := strings.Fields(parts[0]), strings.Fields(parts[1])
	if len(pw) < 1 || pw[0] != "prog" || len(sw) < 1 || sw[0] != "sched" {
		return "bad-line"
	}
	prog, err := parseProg(pw[1:])
	if err != nil {
		return "bad-line"
	}
	var sched []int
	for _, w := range sw[1:] {
		t, err := strconv.Atoi(w)
		if err != nil || t < 0 {
			return "bad-line"
		}
		sched = append(sched, t)
	}
	r := newRunner(prog)
	var toks1 []string
	for _, t := range sched {
		toks1 = append(toks1, r.step(t)...)
	}
	var out string
	if len(parts) == 2 {
		toks2 := r.drain(true)
		fin := r.final()
		out = strings.Join(toks1, " ") + " / " + strings.Join(toks2, " ") + " | " + fin + " " + r.rest()
	} else {
		w := strings.Fields(parts[2])
		if len(w) != 2 || w[0] != "solo" {
			return "bad-solo"
		}
		t, err := strconv.Atoi(w[1])
		if err != nil {
			return "bad-solo"
		}
		if !r.busy(t) {
			out = strings.Join(toks1, " ") + fmt.Sprintf(" | solo %d notbusy", t)
		} else {
			var toks2 []string
			k := 0
			for k < soloCap && r.busy(t) {
				toks2 = append(toks2, r.step(t)...)
				k++
			}
			res := "returned"
			if r.busy(t) {
				res = "spinning"
			}
			out = strings.Join(toks1, " ") + fmt.Sprintf(" | solo %d steps=%d %s : ", t, k, res) + strings.Join(toks2, " ")
			if k > c.Stats["max_solo_steps"] {
				c.Stats["max_solo_steps"] = k
			}
			c.Count(fmt.Sprintf("solo_steps_%02d", k))
		}
		r.drain(false)
	}
	if r.failedCas > 0 {
		c.Count("lines_with_failed_cas")
	}
	if r.helpCas > 0 {
		c.Count("lines_with_helping_cas")
	}
	if r.failedCas > 0 || r.helpCas > 0 {
		c.Count("lines_nontrivial")
	}
	return out
}

// ---------------------------------------------------------------- generators

func driverPath() string {
	if p := os.Getenv("MSQ_DRIVER"); p != "" {
		return p
	}
	return "/verif/lean/.lake/build/bin/drv_msqueue"
}

// explore asks the Lean driver for the schedule set of a configuration (transition coverage of the
// model's reachable state graph for mode c01; one line per reachable state and busy thread for c02).
func explore(c *hx.Ctx, mode string, stride int, cfg string) {
	args := append([]string{"explore", mode, strconv.Itoa(stride)}, strings.Fields(cfg)...)
	cmd := exec.Command(driverPath(), args...)
	var errb strings.Builder
	cmd.Stderr = &errb
	stdout, err := cmd.StdoutPipe()
	if err == nil {
		err = cmd.Start()
	}
	if err != nil {
		// reported by the check as a broken correspondence (never as a failing input of the real code)
		fmt.Fprintln(os.Stderr, "cannot run the model driver:", err)
		c.Count("explore_failed")
		return
	}
	sc := bufio.NewScanner(stdout)
	sc.Buffer(make([]byte, 1<<20), 1<<26)
	key := "explore[" + cfg + "]"
	for sc.Scan() {
		c.Emit("%s", sc.Text())
		c.Count(key)
	}
	if err := cmd.Wait(); err != nil {
		fmt.Fprintln(os.Stderr, "model driver failed:", err, errb.String())
		c.Count("explore_failed")
		return
	}
	// "states=N transitions=M lines=L": size of the model's reachable state graph of this configuration
	for _, w := range strings.Fields(errb.String()) {
		if kv := strings.SplitN(w, "=", 2); len(kv) == 2 && (kv[0] == "states" || kv[0] == "transitions") {
			if n, err := strconv.Atoi(kv[1]); err == nil {
				c.Stats["model_"+kv[0]+"["+cfg+"]"] = n
				c.Stats["model_"+kv[0]+"_total"] += n
			}
		}
	}
}

func randProg(c *hx.Ctx, maxOps int) [][]opK {
	for {
		n := c.Rng.Range(2, 4)
		prog := make([][]opK, n)
		total, v := 0, 0
		bias := c.Rng.Intn(3) // 0 balanced, 1 push-heavy, 2 pop-heavy
		for t := range prog {
			k := c.Rng.Range(1, 4)
			for i := 0; i < k; i++ {
				push := c.Rng.Bool()
				if bias == 1 && c.Rng.Intn(3) == 0 {
					push = true
				}
				if bias == 2 && c.Rng.Intn(3) == 0 {
					push = false
				}
				if push {
					v++
					prog[t] = append(prog[t], opK{push: true, v: v})
				} else {
					prog[t] = append(prog[t], opK{})
				}
			}
			total += k
		}
		if total <= maxOps {
			return prog
		}
	}
}

// randSchedule runs the real code adaptively under a random policy and returns the schedule it chose.
// policy 0: uniform over live threads; 1: bursts (keep the same thread for a random run);
// 2: PCT-style (random priorities, d priority-change points).  maxLen < 0: until everything finished.
func randSchedule(c *hx.Ctx, prog [][]opK, policy int, maxLen int) []int {
	return randScheduleN(c, prog, policy, maxLen, 600)
}

// randScheduleN: the same with an explicit cap on the number of schedule entries.
func randScheduleN(c *hx.Ctx, prog [][]opK, policy int, maxLen int, stepCap int) []int {
	r := newRunner(prog)
	n := len(prog)
	prio := make([]int, n)
	for i := range prio {
		prio[i] = c.Rng.Intn(1000) + 1000
	}
	change := map[int]bool{}
	for i := 0; i < c.Rng.Range(1, 4); i++ {
		change[c.Rng.Intn(80)] = true
	}
	for i := 600; i < stepCap; i += 200 { // long runs: a priority change every ~200 steps
		change[i+c.Rng.Intn(200)] = true
	}
	var sched []int
	cur, burst := -1, 0
	for k := 0; k < stepCap && (maxLen < 0 || k < maxLen); k++ {
		var lv []int
		for t := 0; t < n; t++ {
			if r.live(t) {
				lv = append(lv, t)
			}
		}
		if len(lv) == 0 {
			break
		}
		var t int
		switch policy {
		case 0:
			t = c.Rng.Pick(lv)
		case 1:
			if burst <= 0 || !r.live(cur) {
				cur = c.Rng.Pick(lv)
				burst = c.Rng.Range(1, 6)
			}
			burst--
			t = cur
		default:
			t = lv[0]
			for _, x := range lv {
				if prio[x] > prio[t] {
					t = x
				}
			}
			if change[k] {
				prio[t] = c.Rng.Intn(1000) // drop below every initial priority
			}
		}
		r.step(t)
		sched = append(sched, t)
	}
	r.drain(false)
	return sched
}

func schedStr(sched []int) string {
	ws := make([]string, len(sched))
	for i, t := range sched {
		ws[i] = strconv.Itoa(t)
	}
	return strings.Join(ws, " ")
}



// ---------------------------------------------------------------- real-parallel stress (oracle only)

// A stress line runs G REAL goroutines on all Ps against one queue with NO hook installed: the interleaving is
// neither controlled nor observable, so the model is not consulted (the driver answers "stress not-modelled");
// the line is judged only by the property oracle from the returned values.  It exists for windows that contain
// no atomic access (hence no yield site), which the controlled scheduler executes as one step.
//
//   stress G=<g> n=<ops per goroutine> mode=pairs|prodcons|mixed round=<r> seed=<s>
//
// pairs:    every goroutine does n × (Push(v); Pop())            -> additionally no Pop may return nil
// prodcons: G/2 producers push n values each, G/2 consumers pop n times each (nil allowed)
// mixed:    every goroutine does 2n random operations
// Values are globally unique: v = producer*stressBase + sequence number.
const stressBase = 10000000

type stressLog struct {
	pushed int   // number of completed pushes (sequence numbers 1..pushed)
	popped []int // results of this goroutine's Pops in program order (0 = nil, -1 = not an int)
}

func execStress(c *hx.Ctx, line string) string {
	kv := map[string]string{}
	for _, w := range strings.Fields(line)[1:] {
		if p := strings.SplitN(w, "=", 2); len(p) == 2 {
			kv[p[0]] = p[1]
		}
	}
	G, _ := strconv.Atoi(kv["G"])
	n, _ := strconv.Atoi(kv["n"])
	seed, _ := strconv.ParseUint(kv["seed"], 10, 64)
	mode := kv["mode"]
	if G < 1 || G > 1024 || n < 1 || n > 1000000 || (mode != "pairs" && mode != "prodcons" && mode != "mixed") {
		return "bad-line"
	}
	old := runtime.GOMAXPROCS(runtime.NumCPU())
	defer runtime.GOMAXPROCS(old)
	loom.VerifHook = nil
	q := loom.NewQueue()
	logs := make([]stressLog, G)
	start := make(chan struct{})
	var wg sync.WaitGroup
	var panics int32
	for g := 0; g < G; g++ {
		g := g
		lg := &logs[g]
		lg.popped = make([]int, 0, 2*n)
		rng := hx.NewRng(seed*1000003 + uint64(g))
		wg.Add(1)
		go func() {
			defer wg.Done()
			defer func() {
				if e := recover(); e != nil {
					atomic.AddInt32(&panics, 1)
				}
			}()
			push := func() {
				q.Push((g+1)*stressBase + lg.pushed + 1)
				lg.pushed++
			}
			pop := func() {
				switch v := q.Pop().(type) {
				case nil:
					lg.popped = append(lg.popped, 0)
				case int:
					lg.popped = append(lg.popped, v)
				default:
					lg.popped = append(lg.popped, -1)
				}
			}
			<-start
			switch mode {
			case "pairs":
				for i := 0; i < n; i++ {
					push()
					pop()
				}
			case "prodcons":
				for i := 0; i < n; i++ {
					if g%2 == 0 {
						push()
					} else {
						pop()
					}
				}
			default:
				for i := 0; i < 2*n; i++ {
					if rng.Bool() {
						push()
					} else {
						pop()
					}
				}
			}
		}()
	}
	close(start)
	wg.Wait()
	// final drain by one goroutine through the API
	var drained []int
	drainPanic := false
	func() {
		defer func() {
			if e := recover(); e != nil {
				drainPanic = true
			}
		}()
		for k := 0; k < G*2*n+10; k++ {
			v := q.Pop()
			if v == nil {
				return
			}
			if x, ok := v.(int); ok {
				drained = append(drained, x)
			} else {
				drained = append(drained, -1)
			}
		}
	}()
	// facts about the returned values (judged by the oracle in checklib/c01.py)
	pushes, nonnil, nils, unknown, dup, order, drainOrder := 0, 0, 0, 0, 0, 0, 0
	first := ""
	note := func(format string, a ...any) {
		if first == "" {
			first = fmt.Sprintf(format, a...)
		}
	}
	for g := range logs {
		pushes += logs[g].pushed
	}
	seen := map[int]bool{}
	maxPopped := make([]int, G+1) // per producer: largest sequence number popped during the run
	valid := func(v int) (int, int, bool) {
		p, sq := v/stressBase, v%stressBase
		if v <= 0 || p < 1 || p > G || sq < 1 || sq > logs[p-1].pushed {
			return 0, 0, false
		}
		return p, sq, true
	}
	for g := range logs {
		last := make(map[int]int) // per producer: last sequence number this consumer got
		for i, v := range logs[g].popped {
			if v == 0 {
				nils++
				if mode == "pairs" {
					note("goroutine %d: Pop #%d returned nil right after its own Push returned (every goroutine pushes before it pops, so the queue cannot be empty)", g, i+1)
				}
				continue
			}
			nonnil++
			p, sq, ok := valid(v)
			if !ok {
				unknown++
				note("goroutine %d popped %d, which was never pushed", g, v)
				continue
			}
			if seen[v] {
				dup++
				note("value %d was popped twice", v)
			}
			seen[v] = true
			if sq <= last[p] {
				order++
				note("goroutine %d popped %d after %d of the same producer", g, v, p*stressBase+last[p])
			}
			last[p] = sq
			if sq > maxPopped[p] {
				maxPopped[p] = sq
			}
		}
	}
	lastD := make(map[int]int)
	for _, v := range drained {
		p, sq, ok := valid(v)
		if !ok {
			unknown++
			note("the final drain returned %d, which was never pushed", v)
			continue
		}
		if seen[v] {
			dup++
			note("value %d was popped and is still in the queue", v)
		}
		seen[v] = true
		if sq <= lastD[p] || sq <= maxPopped[p] {
			drainOrder++
			note("the final drain returned %d although a later value of the same producer had already left the queue", v)
		}
		lastD[p] = sq
	}
	if lost := pushes - nonnil - len(drained); lost != 0 {
		for p := 1; p <= G && first == ""; p++ {
			for sq := 1; sq <= logs[p-1].pushed; sq++ {
				if !seen[p*stressBase+sq] {
					note("value %d was pushed (Push returned) but was neither popped nor found by the final drain", p*stressBase+sq)
					break
				}
			}
		}
	}
	np := int(panics)
	if drainPanic {
		np++
	}
	c.Count("stress_lines(real-parallel, oracle only, not modelled)")
	c.Stats["stress_operations"] += pushes + nonnil + nils
	c.Stats["stress_nil_pops"] += nils
	if first == "" {
		first = "-"
	}
	return fmt.Sprintf("stress G=%d n=%d mode=%s procs=%d pushes=%d popped=%d nil=%d drained=%d unknown=%d dup=%d order=%d drainorder=%d panics=%d first: %s",
		G, n, mode, runtime.NumCPU(), pushes, nonnil, nils, len(drained), unknown, dup, order, drainOrder, np, first)
}

func genStress(c *hx.Ctx) {
	rounds := c.Budget(6, 40)
	for r := 0; r < rounds; r++ {
		for _, g := range []int{4, 16, 64} {
			for _, mode := range []string{"pairs", "prodcons", "mixed"} {
				n := 48000 / g
				if mode == "mixed" {
					n /= 2
				}
				c.Emit("stress G=%d n=%d mode=%s round=%d seed=%d", g, n, mode, r, c.Rng.U64()%1000000007)
			}
		}
	}
}

// ---------------------------------------------------------------- structured schedule classes

// rec performs one schedule entry and records it.
func (r *runner) rec(t int, sched *[]int) {
	*sched = append(*sched, t)
	r.step(t)
}

// completeOp lets thread t finish its current operation, or invoke and finish its next one, running alone.
func (r *runner) completeOp(t int, sched *[]int) bool {
	if !r.live(t) {
		return false
	}
	r.rec(t, sched)
	for k := 0; k < 4*K && r.busy(t); k++ {
		r.rec(t, sched)
	}
	return !r.busy(t)
}

// pendingCas reports whether thread t is parked before a CAS on the given class of cell ("next", "head", "tail").
func (r *runner) pendingCas(t int, class string) bool {
	if !r.busy(t) {
		return false
	}
	pe := r.s.Pending(t)
	if pe.Site != loom.VerifQueueCas {
		return false
	}
	loc := r.loc(pe.Ptr)
	switch class {
	case "head", "tail":
		return loc == class
	}
	return loc != "head" && loc != "tail"
}

// runUntil steps thread t (at most max steps) until pred holds; false if the thread left its operation first.
func (r *runner) runUntil(t int, sched *[]int, max int, pred func() bool) bool {
	for k := 0; k < max; k++ {
		if pred() {
			return true
		}
		if !r.live(t) {
			return false
		}
		wasBusy := r.busy(t)
		r.rec(t, sched)
		if wasBusy && !r.busy(t) {
			return pred()
		}
	}
	return pred()
}

func pairs(n int, v *int) []opK {
	var ops []opK
	for i := 0; i < n; i++ {
		*v++
		ops = append(ops, opK{push: true, v: *v}, opK{})
	}
	return ops
}

func pushes(n int, v *int) []opK {
	var ops []opK
	for i := 0; i < n; i++ {
		*v++
		ops = append(ops, opK{push: true, v: *v})
	}
	return ops
}

func pops(n int) []opK { return make([]opK, n) }

// longStall: LONG-STALL schedules. A victim operation (thread 0) is run up to its j-th shared access and
// suspended there; the other threads complete `prefix` operations before and n operations while it is
// suspended (solo bursts in random order, or a random step-level interleaving); then the victim resumes
// (the drain runs the lowest live thread first). Everything that relies on "nothing relevant can have
// happened while I was not looking" (reuse of nodes, ABA) needs this class.
func longStall(c *hx.Ctx, victimPush bool, j, n, shape, prefix int, interleave bool) {
	v := 99
	var prog [][]opK
	if victimPush {
		prog = append(prog, []opK{{push: true, v: 1}})
	} else {
		prog = append(prog, []opK{{}})
	}
	m := n/2 + 8
	switch shape {
	case 0:
		prog = append(prog, pairs(m, &v))
	case 1:
		prog = append(prog, pairs(m, &v), pops(n/4+2))
	case 2:
		prog = append(prog, pairs(m, &v), pairs(m, &v))
	default:
		prog = append(prog, pushes(m, &v), pops(m))
	}
	r := newRunner(prog)
	var sched []int
	others := len(prog) - 1
	for i := 0; i < prefix; i++ {
		r.completeOp(1+i%others, &sched)
	}
	r.rec(0, &sched) // the victim's invocation
	for k := 0; k < j && r.busy(0); k++ {
		r.rec(0, &sched)
	}
	done := 0
	for guard := 0; done < n && guard < 40*n; guard++ {
		var lv []int
		for t := 1; t < len(prog); t++ {
			if r.live(t) {
				lv = append(lv, t)
			}
		}
		if len(lv) == 0 {
			break
		}
		t := c.Rng.Pick(lv)
		if interleave {
			wasBusy := r.busy(t)
			r.rec(t, &sched)
			if wasBusy && !r.busy(t) {
				done++
			}
		} else if r.completeOp(t, &sched) {
			done++
		}
	}
	r.drain(false)
	c.Emit("prog %s | sched %s", showProg(prog), schedStr(sched))
	c.Count("long_stall")
	switch {
	case n < 80:
		c.Count("long_stall_ops_lt80")
	case n < 130:
		c.Count("long_stall_ops_80_129")
	default:
		c.Count("long_stall_ops_ge130")
	}
}

func genLongStall(c *hx.Ctx) {
	ns := []int{60, 100, 150}
	for _, push := range []bool{false, true} {
		for j := 0; j <= 5; j++ {
			if !push && j == 5 {
				continue
			}
			for _, n := range ns {
				for shape := 0; shape < 4; shape++ {
					longStall(c, push, j, n, shape, c.Rng.Range(0, 3), false)
				}
			}
		}
	}
	extra := c.Budget(60, 1500)
	for i := 0; i < extra; i++ {
		n := c.Rng.Pick(ns)
		if c.Thorough() && c.Rng.Intn(4) == 0 {
			n = c.Rng.Range(40, 260)
		}
		longStall(c, c.Rng.Bool(), c.Rng.Range(0, 5), n, c.Rng.Intn(4), c.Rng.Range(0, 5), c.Rng.Intn(3) == 0)
	}
}

// starvePush: STARVATION schedules for Push. The victim (thread 0) is brought in front of its link CAS and
// loses it k times in a row, each time to a different Push of the adversaries, which complete — except the
// last one, which is suspended between its link CAS and its tail CAS. Then the victim runs solo.
func starvePush(c *hx.Ctx, k, adversaries int, parkLast bool) {
	v := 1
	prog := [][]opK{{{push: true, v: 1}}}
	for a := 0; a < adversaries; a++ {
		prog = append(prog, pushes((k+adversaries-1)/adversaries, &v))
	}
	r := newRunner(prog)
	var sched []int
	atLink := func() bool { return r.pendingCas(0, "next") }
	ok := r.runUntil(0, &sched, 3*K, atLink)
	for i := 0; ok && i < k; i++ {
		a := 1 + i%adversaries
		if i == k-1 && parkLast {
			ok = r.runUntil(a, &sched, 3*K, func() bool { return r.linked[a] && r.pendingCas(a, "tail") })
		} else {
			ok = r.completeOp(a, &sched)
		}
		if i < k-1 && ok {
			r.rec(0, &sched) // the victim loses the link CAS
			ok = r.runUntil(0, &sched, 3*K, atLink)
		}
	}
	busy := r.busy(0)
	r.drain(false)
	if !busy {
		return
	}
	c.Emit("prog %s | sched %s | solo 0", showProg(prog), schedStr(sched))
	c.Count("starve_push")
}

// starvePop: the same for Pop and the head CAS; the queue is pre-filled by thread 1, the adversary Pops
// complete; optionally a pusher is left suspended between its two CASes (lagging tail).
func starvePop(c *hx.Ctx, k, adversaries int, lagging bool) {
	v := 1
	prog := [][]opK{{{}}, pushes(k+3, &v)}
	for a := 0; a < adversaries; a++ {
		prog = append(prog, pops((k+adversaries-1)/adversaries))
	}
	r := newRunner(prog)
	var sched []int
	ok := true
	for i := 0; ok && i < k+2; i++ {
		ok = r.completeOp(1, &sched)
	}
	if ok && lagging {
		ok = r.runUntil(1, &sched, 3*K, func() bool { return r.linked[1] && r.pendingCas(1, "tail") })
	}
	atHead := func() bool { return r.pendingCas(0, "head") }
	ok = ok && r.runUntil(0, &sched, 3*K, atHead)
	for i := 0; ok && i < k; i++ {
		ok = r.completeOp(2+i%adversaries, &sched)
		if i < k-1 && ok {
			r.rec(0, &sched) // the victim loses the head CAS
			ok = r.runUntil(0, &sched, 3*K, atHead)
		}
	}
	busy := r.busy(0)
	r.drain(false)
	if !busy {
		return
	}
	c.Emit("prog %s | sched %s | solo 0", showProg(prog), schedStr(sched))
	c.Count("starve_pop")
}

func genStarvation(c *hx.Ctx) {
	ks := []int{1, 2, 3, 4, 5, 6, 7, 8, 9, 10, 11, 12, 16, 20}
	if c.Thorough() {
		ks = append(ks, 24, 32, 48, 64)
	}
	for _, k := range ks {
		for adv := 1; adv <= 3; adv++ {
			for _, b := range []bool{true, false} {
				starvePush(c, k, adv, b)
				starvePop(c, k, adv, b)
			}
		}
	}
}

var quickConfigs = []string{
	"0:push1,pop 1:push2,pop",
	"0:push1,push2 1:pop,pop",
	"0:push1,push2 1:push3,pop",
	"0:pop,pop 1:pop,push1",
	"0:push1 1:push2 2:pop",
	"0:push1,pop,push2 1:pop,push3,pop",
}

var thoroughConfigs = []string{
	"0:push1,pop 1:push2,pop 2:pop",
	"0:push1,push2 1:pop,pop 2:push3",
	"0:push1,pop 1:push2,pop 2:push3,pop",
	"0:push1,push2 1:push3,pop 2:pop,pop",
	"0:push1 1:push2 2:pop 3:pop",
}

// GenC01: transition-coverage schedule sets of small configurations + random schedules of larger shapes.
func GenC01(c *hx.Ctx) {
	for _, cfg := range quickConfigs {
		explore(c, "c01", 1, cfg)
	}
	if c.Thorough() {
		for _, cfg := range thoroughConfigs {
			explore(c, "c01", 1, cfg)
		}
	}
	genLongStall(c)
	genStress(c)
	n := c.Budget(3000, 50000)
	for i := 0; i < n; i++ {
		prog := randProg(c, 12)
		policy := c.Rng.Intn(3)
		sched := randSchedule(c, prog, policy, -1)
		c.Emit("prog %s | sched %s", showProg(prog), schedStr(sched))
		c.Count(fmt.Sprintf("random_policy%d_threads%d", policy, len(prog)))
	}
	// long-history / many-thread classes (long.go); generated last so that the random stream above is unchanged
	genLongStallX(c)
	genFrozen(c, false)
	genHot(c, false)
	genReuse(c, false)
}

// GenC02: every reachable state of the explored configurations × every busy thread (shortest prefix),
// + random prefixes of larger shapes with a random busy thread.
func GenC02(c *hx.Ctx) {
	for _, cfg := range quickConfigs {
		explore(c, "c02", 1, cfg)
	}
	if c.Thorough() {
		for i, cfg := range thoroughConfigs {
			stride := 1
			if i == 2 {
				stride = 2
			}
			explore(c, "c02", stride, cfg)
		}
	}
	genStarvation(c)
	n := c.Budget(3000, 50000)
	for i := 0; i < n; i++ {
		prog := randProg(c, 12)
		policy := c.Rng.Intn(3)
		full := randSchedule(c, prog, policy, -1)
		if len(full) == 0 {
			continue
		}
		cut := c.Rng.Range(1, len(full))
		// replay the prefix to find the busy threads at the cut
		r := newRunner(prog)
		for _, t := range full[:cut] {
			r.step(t)
		}
		var busy []int
		for t := range prog {
			if r.busy(t) {
				busy = append(busy, t)
			}
		}
		r.drain(false)
		if len(busy) == 0 {
			continue
		}
		c.Emit("prog %s | sched %s | solo %d", showProg(prog), schedStr(full[:cut]), c.Rng.Pick(busy))
		c.Count(fmt.Sprintf("random_solo_threads%d", len(prog)))
	}
	// long-history / many-thread classes (long.go)
	genStallSolo(c)
	genFrozen(c, true)
	genHot(c, true)
	genReuse(c, true)
}
