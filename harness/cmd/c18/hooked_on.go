//go:build verif

// Delay injection through the repository's own scheduling-point hooks (build tag verif), run under -race:
// the hooks are plain function variables (no synchronisation of their own), the delays are sleeps (no
// happens-before edges), so a racing pair that needs a particular order of attempt deadline, late inner
// worker and next attempt is reached without hiding it from the race detector.
package main

import (
	"context"
	"errors"
	"fmt"
	"sync"
	"sync/atomic"
	"time"
	"unsafe"

	"github.com/lixianmin/got/ants"
	"github.com/lixianmin/got/loom"
	"verif/harness/hx"
)

const hooked = true

// antsPlan: sleep `delay` at the k-th passage (1-based, over the whole scenario) of hook `site`
type antsPlan struct {
	site  int
	k     int32
	delay time.Duration
	cnt   [5]int32
}

var curPlan atomic.Pointer[antsPlan]

// installAntsHook is called once, before any pool exists (the hook variable itself is plain)
func installAntsHook() {
	ants.VerifHook = func(site int) {
		if pl := curPlan.Load(); pl != nil && site == pl.site && site < len(pl.cnt) && atomic.AddInt32(&pl.cnt[site], 1) == pl.k {
			time.Sleep(pl.delay)
		}
	}
}

// stressAntsParked runs short scenarios on fresh pools: a task with timeout T and R retries whose attempts finish
// well inside / around / after T, while ONE chosen passage of one hook site (1: worker before claiming the attempt,
// 2: dispatcher before deciding a timed-out attempt, 3: dispatcher after handing the closure over, 4: worker after
// winning the decision, before publishing) is held for 0.5..2.5 T. Clients read the task from several goroutines.
func stressAntsParked(r *hx.Rng, dur time.Duration) string {
	const T = 12 * time.Millisecond
	stop := time.Now().Add(dur)
	scen := 0
	for sc := 0; time.Now().Before(stop) || sc < 24; sc++ {
		curPlan.Store(&antsPlan{site: 1 + sc%4, k: int32(1 + (sc/4)%3), delay: T/2 + time.Duration(r.Intn(5))*T/2})
		size := 1 + sc%3
		pool := ants.NewPool(ants.WithSize(size))
		retry := 2 + sc%2
		var attempts int32
		mode := (sc / 12) % 3
		var wg sync.WaitGroup
		for c := 0; c < 1+sc%2; c++ {
			t := pool.Send(func(ctx context.Context) (any, error) {
				a := atomic.AddInt32(&attempts, 1)
				switch mode {
				case 0: // returns at once with a value
					return &payload{a: int(a)}, nil
				case 1: // first attempts fail late, the last one succeeds quickly
					if int(a) < retry {
						time.Sleep(T / 2)
						return &payload{a: int(a)}, errors.New("again")
					}
					time.Sleep(T / 4)
					return &payload{a: int(a)}, nil
				default: // overruns the deadline ignoring cancellation
					time.Sleep(T + T/3)
					return &payload{a: int(a)}, nil
				}
			}, ants.WithTimeout(T), ants.WithRetry(retry), ants.WithDiscardOnBusy(false), ants.WithError(func(err error) {}))
			for k := 0; k < 2; k++ {
				wg.Add(1)
				go func(k int) {
					defer wg.Done()
					if k == 1 {
						_ = t.Err()
					}
					v, err := t.Get2()
					if err == nil && v != nil {
						_ = v.(*payload).a
					}
					time.Sleep(3 * T) // late writers of earlier attempts land while the client still reads
					v, _ = t.Get2()
					if v != nil {
						_ = v.(*payload).a
					}
				}(k)
			}
		}
		wg.Wait()
		scen++
	}
	curPlan.Store(nil)
	return fmt.Sprintf("ants-parked scenarios=%d", scen)
}

// loomJitter makes every 64th passage of a loom hook yield or sleep briefly, so that the lock-free code's plain
// accesses meet under more orders than the free-running stress reaches.
func loomJitter(seed uint64) {
	installAntsHook()
	var n uint64
	loom.VerifHook = func(site int, p unsafe.Pointer) {
		x := atomic.AddUint64(&n, 0x9E3779B97F4A7C15+seed)
		if x>>58 == 0 {
			time.Sleep(time.Duration(1+(x>>40)%20) * time.Microsecond)
		}
	}
}
