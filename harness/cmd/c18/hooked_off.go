//go:build !verif

package main

import (
	"time"

	"verif/harness/hx"
)

const hooked = false

func stressAntsParked(r *hx.Rng, dur time.Duration) string { return "" }
func loomJitter(seed uint64)                               {}
