// C18 search harness (L3): stress clients over the public API of every component that is meant to be
// shared between goroutines, to be built with -race. Race reports are written by the race runtime to
// GORACE=log_path; this program only drives load and prints one summary line per component.
// It is a search tool for concrete racing accesses, never counted as proof.
package main

import (
	"context"
	"errors"
	"flag"
	"fmt"
	"runtime"
	"sync"
	"sync/atomic"
	"time"

	"github.com/lixianmin/got/ants"
	"github.com/lixianmin/got/cachex"
	"github.com/lixianmin/got/loom"
	"github.com/lixianmin/got/taskx"
	"verif/harness/hx"
)

type payload struct{ a, b int }

func stressQueue(r *hx.Rng, dur time.Duration) string {
	q := loom.NewQueue()
	var wg sync.WaitGroup
	var pushed, popped int64
	stop := time.Now().Add(dur)
	for g := 0; g < 8; g++ {
		wg.Add(1)
		go func(g int) {
			defer wg.Done()
			for i := 0; time.Now().Before(stop); i++ {
				if (i+g)%2 == 0 {
					q.Push(&payload{a: i, b: g})
					atomic.AddInt64(&pushed, 1)
				} else if v := q.Pop(); v != nil {
					p := v.(*payload)
					if p.a < 0 || p.b < 0 {
						panic("corrupt")
					}
					atomic.AddInt64(&popped, 1)
				}
			}
		}(g)
	}
	wg.Wait()
	return fmt.Sprintf("queue pushed=%d popped=%d", atomic.LoadInt64(&pushed), atomic.LoadInt64(&popped))
}

func stressWheel(r *hx.Rng, dur time.Duration) string {
	w := loom.NewWheel(time.Millisecond, 8)
	defer w.Close()
	var wg sync.WaitGroup
	var fired int64
	stop := time.Now().Add(dur)
	for g := 0; g < 8; g++ {
		wg.Add(1)
		go func(g int) {
			defer wg.Done()
			t := w.NewTimer(time.Duration(g%7) * time.Millisecond)
			for time.Now().Before(stop) {
				select {
				case <-t.C:
					atomic.AddInt64(&fired, 1)
					t.Reset(time.Duration((g+int(atomic.LoadInt64(&fired)))%7) * time.Millisecond)
				case <-time.After(20 * time.Millisecond):
					t.Reset()
				}
				w.AfterFunc(time.Duration(g%5)*time.Millisecond, func() { atomic.AddInt64(&fired, 1) })
			}
		}(g)
	}
	wg.Wait()
	return fmt.Sprintf("wheel fired=%d", atomic.LoadInt64(&fired))
}

func stressWaitClose(r *hx.Rng, dur time.Duration) string {
	stop := time.Now().Add(dur)
	var closes, cbs int64
	for time.Now().Before(stop) {
		var wc loom.WaitClose
		var wg sync.WaitGroup
		for g := 0; g < 6; g++ {
			wg.Add(1)
			go func(g int) {
				defer wg.Done()
				switch g % 4 {
				case 0:
					<-wc.C()
				case 1:
					wc.WaitUtil(time.Duration(g) * 100 * time.Microsecond)
					_ = wc.IsClosed()
				case 2:
					_ = wc.Close(func() error { atomic.AddInt64(&cbs, 1); return nil })
					atomic.AddInt64(&closes, 1)
					select {
					case <-wc.C():
					default:
						panic("channel not closed after Close")
					}
				case 3:
					_ = wc.IsClosed()
					_ = wc.Close(nil)
				}
			}(g)
		}
		wg.Wait()
	}
	return fmt.Sprintf("waitclose closes=%d callbacks=%d", atomic.LoadInt64(&closes), atomic.LoadInt64(&cbs))
}

func stressAtomics(r *hx.Rng, dur time.Duration) string {
	var f loom.Flag
	var counter int64
	var m loom.Mutex
	var wg sync.WaitGroup
	var inside, maxInside, locks int64
	shared := 0
	stop := time.Now().Add(dur)
	for g := 0; g < 8; g++ {
		wg.Add(1)
		go func(g int) {
			defer wg.Done()
			for i := 0; time.Now().Before(stop); i++ {
				f.AddFlag(1 << uint(g))
				_ = f.HasFlag(1 << uint((g+1)%8))
				f.RemoveFlag(1 << uint(g))
				loom.AddIf64(&counter, 1, func(old int64) bool { return old < 100 })
				loom.AddIf64(&counter, -1, func(old int64) bool { return old > 0 })
				if g%2 == 0 {
					if m.TryLock() {
						n := atomic.AddInt64(&inside, 1)
						if n > atomic.LoadInt64(&maxInside) {
							atomic.StoreInt64(&maxInside, n)
						}
						shared++ // plain access protected by the lock taken via TryLock
						atomic.AddInt64(&inside, -1)
						atomic.AddInt64(&locks, 1)
						m.Unlock()
					}
				} else {
					m.Lock()
					shared++
					_ = m.Count()
					m.Unlock()
				}
			}
		}(g)
	}
	wg.Wait()
	return fmt.Sprintf("atomics locks=%d maxInside=%d counter=%d", atomic.LoadInt64(&locks), atomic.LoadInt64(&maxInside), atomic.LoadInt64(&counter))
}

func stressCache(r *hx.Rng, dur time.Duration) string {
	c := cachex.NewCache(cachex.WithParallel(3), cachex.WithJobChanSize(2), cachex.WithExpire(400*time.Microsecond, 200*time.Microsecond))
	var wg sync.WaitGroup
	var loads, gets int64
	stop := time.Now().Add(dur)
	for g := 0; g < 8; g++ {
		wg.Add(1)
		go func(g int) {
			defer wg.Done()
			for i := 0; time.Now().Before(stop); i++ {
				key := (i + g) % 5
				switch (i + g) % 4 {
				case 0, 1:
					fut := c.Load(key, func(k any) (any, error) {
						atomic.AddInt64(&loads, 1)
						if i%3 == 0 {
							return nil, errors.New("load failed")
						}
						return &payload{a: i, b: g}, nil
					})
					v, err := fut.Get2()
					if err == nil && v != nil && v.(*payload).a < 0 {
						panic("corrupt")
					}
					_ = fut.Get1()
				case 2:
					v, _ := c.Get2(key)
					if v != nil {
						_ = v.(*payload).a
					}
					atomic.AddInt64(&gets, 1)
				case 3:
					if i%16 == 3 {
						c.Set(key, &payload{a: 1, b: 2}, nil)
					} else {
						_ = c.Get1(key)
					}
				}
			}
		}(g)
	}
	wg.Wait()
	return fmt.Sprintf("cache loads=%d gets=%d", atomic.LoadInt64(&loads), atomic.LoadInt64(&gets))
}

func stressAnts(r *hx.Rng, dur time.Duration) string {
	pool := ants.NewPool(ants.WithSize(3))
	var wg sync.WaitGroup
	var done, errs int64
	stop := time.Now().Add(dur)
	for g := 0; g < 4; g++ {
		wg.Add(1)
		go func(g int) {
			defer wg.Done()
			for i := 0; time.Now().Before(stop); i++ {
				to := time.Duration(1 + (i*37+g)%4000) // 1ns .. 4us: attempts finish right around their deadline
				if i%5 == 0 {
					to = time.Second
				}
				t := pool.Send(func(ctx context.Context) (any, error) {
					if i%7 == 0 {
						return nil, errors.New("handler failed")
					}
					return &payload{a: i, b: g}, nil
				}, ants.WithTimeout(to), ants.WithRetry(1+i%3), ants.WithDiscardOnBusy(i%2 == 0),
					ants.WithError(func(err error) { atomic.AddInt64(&errs, 1) }))
				var w2 sync.WaitGroup
				for k := 0; k < 2; k++ {
					w2.Add(1)
					go func(k int) {
						defer w2.Done()
						if k == 0 {
							_ = t.Err()
						}
						v, err := t.Get2()
						if err == nil && v != nil {
							_ = v.(*payload).a
						}
					}(k)
				}
				w2.Wait()
				_ = t.Get1()
				atomic.AddInt64(&done, 1)
			}
		}(g)
	}
	wg.Wait()
	return fmt.Sprintf("ants tasks=%d onError=%d", atomic.LoadInt64(&done), atomic.LoadInt64(&errs))
}

func stressTaskx(r *hx.Rng, dur time.Duration) string {
	closeChan := make(chan struct{})
	q := taskx.NewQueue(taskx.WithSize(4), taskx.WithCloseChan(closeChan), taskx.WithErrorLogger(func(format string, args ...any) {}))
	var consumed int64
	consumerDone := make(chan struct{})
	go func() { // the single consumer
		defer close(consumerDone)
		for {
			select {
			case t := <-q.C:
				_ = t.Do(nil)
				atomic.AddInt64(&consumed, 1)
			case <-closeChan:
				return
			}
		}
	}()
	var wg sync.WaitGroup
	stop := time.Now().Add(dur)
	for g := 0; g < 4; g++ {
		wg.Add(1)
		go func(g int) {
			defer wg.Done()
			for i := 0; time.Now().Before(stop); i++ {
				t := q.SendCallback(func(args any) (any, error) { return &payload{a: i, b: g}, nil })
				v, err := t.Get2()
				if err == nil && v != nil {
					_ = v.(*payload).b
				}
				_ = t.Get1()
				if i%50 == 0 {
					q.SendDelayed(0, func(args any) (any, error) { return nil, nil })
				}
			}
		}(g)
	}
	wg.Wait()
	close(closeChan)
	<-consumerDone
	return fmt.Sprintf("taskx consumed=%d", atomic.LoadInt64(&consumed))
}

func main() {
	seed := flag.Uint64("seed", 1, "seed")
	ms := flag.Int("ms", 300, "milliseconds per component")
	procs := flag.Int("procs", 0, "GOMAXPROCS (0 = leave)")
	flag.Parse()
	if *procs > 0 {
		runtime.GOMAXPROCS(*procs)
	}
	r := hx.NewRng(*seed)
	d := time.Duration(*ms) * time.Millisecond
	fs := []func(*hx.Rng, time.Duration) string{stressQueue, stressWheel, stressWaitClose, stressAtomics, stressCache, stressAnts, stressTaskx}
	if hooked { // -tags verif: delay injection through the repository's scheduling-point hooks
		loomJitter(*seed)
		fs = []func(*hx.Rng, time.Duration) string{stressAntsParked, stressQueue, stressWheel, stressAtomics, stressAnts}
	}
	for _, f := range fs {
		fmt.Println(f(r, d))
	}
}
