package main

import (
	"os"
	"strconv"
	"strings"

	"verif/harness/hx"
)

// packer groups typed values into script lines of at most n values
type packer struct {
	c     *hx.Ctx
	n     int
	toks  []string
	class string
}

func (p *packer) add(t string) {
	p.toks = append(p.toks, t)
	if len(p.toks) >= p.n {
		p.flush()
	}
}

func (p *packer) flush() {
	if len(p.toks) > 0 {
		p.c.Emit("seq | %s", strings.Join(p.toks, " ; "))
		p.c.Stats[p.class+"_lines"]++
		p.toks = p.toks[:0]
	}
}

func i32tok(c *hx.Ctx, p *packer, v int32, class string) {
	s := strconv.FormatInt(int64(v), 10)
	p.add("i:" + s)
	p.add("v:" + s)
	c.Count(class)
}

// boundary values of an n-bit two's complement type around powers 2^(7k) and 2^(8k)
func boundaries(bits uint) []int64 {
	seen := map[int64]bool{}
	var out []int64
	add := func(v int64) {
		if bits < 64 {
			// wrap into the type
			sh := 64 - bits
			v = v << sh >> sh
		}
		if !seen[v] {
			seen[v] = true
			out = append(out, v)
		}
	}
	for _, v := range []int64{0, 1, -1, 2, -2} {
		add(v)
	}
	for k := uint(1); k < 64; k++ {
		if k%7 != 0 && k%8 != 0 && k != bits-1 {
			continue
		}
		if k > bits {
			break
		}
		p := int64(1) << k
		for _, d := range []int64{-2, -1, 0, 1, 2} {
			add(p + d)
			add(-p + d)
		}
	}
	min := int64(-1) << (bits - 1)
	add(min)
	add(min + 1)
	add(^min)
	add(^min - 1)
	return out
}

func randBytes(c *hx.Ctx, n int) []byte {
	b := make([]byte, n)
	switch c.Rng.Intn(6) {
	case 0: // all zero
	case 1:
		for i := range b {
			b[i] = 0xff
		}
	case 2: // invalid UTF-8 heavy
		bad := []byte{0xff, 0xfe, 0xc0, 0x80, 0xed, 0xa0, 0xf8, 0x00, 0x7f}
		for i := range b {
			b[i] = bad[c.Rng.Intn(len(bad))]
		}
	case 3: // ASCII
		for i := range b {
			b[i] = byte(0x20 + c.Rng.Intn(0x5f))
		}
	default:
		for i := range b {
			b[i] = byte(c.Rng.U64())
		}
	}
	return b
}

var lenBoundaries = []int{0, 1, 2, 3, 126, 127, 128, 129, 255, 256, 257, 16382, 16383, 16384, 16385}

var smallLenBoundaries = []int{0, 1, 2, 3, 126, 127, 128, 129, 255, 256, 257}
var largeLenBoundaries = []int{16382, 16383, 16384, 16385}

// randLen: boundary-biased length; lengths around 16384 (3-byte prefix) and above only when big is set or rarely,
// so that the volume of hex text stays bounded
func randLen(c *hx.Ctx, big bool) int {
	switch c.Rng.Intn(10) {
	case 0, 1, 2:
		if big || c.Rng.Intn(60) == 0 {
			return largeLenBoundaries[c.Rng.Intn(len(largeLenBoundaries))]
		}
		return smallLenBoundaries[c.Rng.Intn(len(smallLenBoundaries))]
	case 3:
		if big {
			return c.Rng.Range(16000, 40000)
		}
		return c.Rng.Range(100, 300)
	case 4:
		return c.Rng.Range(120, 135)
	default:
		return c.Rng.Intn(24)
	}
}

func randI64(c *hx.Ctx) int64 {
	switch c.Rng.Intn(4) {
	case 0:
		b := boundaries(64)
		return b[c.Rng.Intn(len(b))]
	case 1: // random width
		w := uint(c.Rng.Range(1, 64))
		v := int64(c.Rng.U64() >> (64 - w))
		if c.Rng.Bool() {
			v = -v
		}
		return v
	case 2: // few non-trivial byte lanes over a 00 / ff background
		var v uint64
		if c.Rng.Bool() {
			v = ^uint64(0)
		}
		for k := 0; k < c.Rng.Range(1, 3); k++ {
			lane := uint(c.Rng.Intn(8)) * 8
			v = v&^(0xff<<lane) | (c.Rng.U64()&0xff)<<lane
		}
		return int64(v)
	}
	return int64(c.Rng.U64())
}

func randI32(c *hx.Ctx) int32 {
	switch c.Rng.Intn(4) {
	case 0:
		b := boundaries(32)
		return int32(b[c.Rng.Intn(len(b))])
	case 1:
		w := uint(c.Rng.Range(1, 32))
		v := int32(uint32(c.Rng.U64()) >> (32 - w))
		if c.Rng.Bool() {
			v = -v
		}
		return v
	}
	return int32(c.Rng.U64())
}

func randVal(c *hx.Ctx, big bool) string {
	switch c.Rng.Intn(11) {
	case 0:
		return "b:" + strconv.Itoa(c.Rng.Intn(2))
	case 1:
		return "y:" + hexOf([]byte{byte(c.Rng.U64())})
	case 2:
		return "h:" + strconv.FormatInt(int64(int16(c.Rng.U64())), 10)
	case 3:
		return "i:" + strconv.FormatInt(int64(randI32(c)), 10)
	case 4:
		return "l:" + strconv.FormatInt(randI64(c), 10)
	case 5, 6:
		return "v:" + strconv.FormatInt(int64(randI32(c)), 10)
	case 7, 8:
		return "B:" + hexOf(randBytes(c, randLen(c, big)))
	case 9:
		return "S:" + hexOf(randBytes(c, randLen(c, big)))
	}
	n := randLen(c, false)
	if n == 0 {
		n = 1
	}
	return "R:" + hexOf(randBytes(c, n))
}

// memAvailableMiB reads MemAvailable from /proc/meminfo (-1 if unknown)
func memAvailableMiB() int {
	b, err := os.ReadFile("/proc/meminfo")
	if err != nil {
		return -1
	}
	for _, l := range strings.Split(string(b), "\n") {
		if strings.HasPrefix(l, "MemAvailable:") {
			f := strings.Fields(l)
			if len(f) >= 2 {
				kb, err := strconv.Atoi(f[1])
				if err == nil {
					return kb / 1024
				}
			}
		}
	}
	return -1
}

// a value for the concurrent phase: mostly what goes through the 7-bit encoder (ints of every width, length prefixes)
func concVal(c *hx.Ctx) string {
	switch c.Rng.Intn(10) {
	case 0, 1, 2, 3:
		return "v:" + strconv.FormatInt(int64(int32(uint32(c.Rng.U64())>>uint(c.Rng.Intn(32)))), 10)
	case 4:
		return "v:" + strconv.FormatInt(int64(randI32(c)), 10)
	case 5, 6:
		return "S:" + hexOf(randBytes(c, c.Rng.Pick([]int{0, 1, 5, 20, 127, 128, 129, 300})))
	case 7:
		return "B:" + hexOf(randBytes(c, c.Rng.Pick([]int{1, 3, 130, 200})))
	case 8:
		return "i:" + strconv.FormatInt(int64(randI32(c)), 10)
	}
	return randVal(c, false)
}

func gen(c *hx.Ctx) {
	// 1. bool, byte: exhaustive
	p := &packer{c: c, n: 32, class: "small"}
	p.add("b:0")
	p.add("b:1")
	for v := 0; v < 256; v++ {
		p.add("y:" + hexOf([]byte{byte(v)}))
		c.Count("byte_exhaustive")
	}
	p.flush()

	// 2. every int16 value
	p = &packer{c: c, n: 32, class: "int16"}
	for v := -32768; v <= 32767; v++ {
		p.add("h:" + strconv.Itoa(v))
		c.Count("int16_exhaustive")
	}
	p.flush()

	// 3. int32, fixed-width and 7-bit encoding of the same value
	p = &packer{c: c, n: 32, class: "int32"}
	for _, v := range boundaries(32) {
		i32tok(c, p, int32(v), "int32_boundary")
	}
	// every value with at most two non-trivial byte lanes over a 00 / ff background
	// (quick: a seeded 1/2 sample of the 786 432; thorough: all of them)
	stride := c.Budget(2, 1)
	for bg := 0; bg < 2; bg++ {
		var base uint32
		if bg == 1 {
			base = 0xffffffff
		}
		for l1 := uint(0); l1 < 4; l1++ {
			for l2 := l1 + 1; l2 < 4; l2++ {
				off := c.Rng.Intn(stride)
				for x := off; x < 65536; x += stride {
					v := base&^(0xff<<(8*l1))&^(0xff<<(8*l2)) | uint32(x&0xff)<<(8*l1) | uint32(x>>8)<<(8*l2)
					i32tok(c, p, int32(v), "int32_two_lanes")
				}
			}
		}
	}
	// every 7-bit group pattern: values whose LEB128 groups are boundary digits
	digits := []uint32{0, 1, 0x3f, 0x40, 0x7e, 0x7f}
	for a := range digits {
		for b := range digits {
			for d := range digits {
				for e := range digits {
					for top := uint32(0); top < 16; top += 3 {
						v := digits[a] | digits[b]<<7 | digits[d]<<14 | digits[e]<<21 | top<<28
						i32tok(c, p, int32(v), "int32_7bit_groups")
					}
				}
			}
		}
	}
	for i := 0; i < c.Budget(150000, 1000000); i++ {
		i32tok(c, p, randI32(c), "int32_random")
	}
	p.flush()

	// 3b. range protocol: whole blocks of 2^16 consecutive int32 patterns (fixed + 7-bit, write and read back), one CRC each.
	// Boundary blocks always, the rest drawn from the seed (quick 20 blocks = 1.3M values, thorough 64 = 4.2M values; the
	// thorough tier of ./check additionally sweeps thousands of blocks (or all 65536) in parallel shards — see checklib/c11.py).
	blocks := []int{0x0000, 0x0001, 0x003f, 0x0040, 0x007f, 0x0080, 0x0fff, 0x1000, 0x7fff, 0x8000, 0xefff, 0xf000, 0xff7f, 0xff80, 0xfffe, 0xffff}
	for len(blocks) < c.Budget(20, 64) {
		blocks = append(blocks, c.Rng.Intn(65536))
	}
	for _, b := range blocks {
		c.Emit("range32 %d", b)
		c.Count("int32_block_of_65536")
	}

	// 4. int64
	p = &packer{c: c, n: 16, class: "int64"}
	for _, v := range boundaries(64) {
		p.add("l:" + strconv.FormatInt(v, 10))
		c.Count("int64_boundary")
	}
	for i := 0; i < c.Budget(100000, 600000); i++ {
		p.add("l:" + strconv.FormatInt(randI64(c), 10))
		c.Count("int64_random")
	}
	p.flush()

	// 5. byte slices and strings at the length-prefix boundaries, single and in context
	for _, n := range lenBoundaries {
		for rep := 0; rep < c.Budget(2, 6); rep++ {
			c.Emit("seq | B:%s", hexOf(randBytes(c, n)))
			c.Emit("seq | S:%s", hexOf(randBytes(c, n)))
			c.Emit("seq | y:aa ; S:%s ; B:%s ; i:-2", hexOf(randBytes(c, n)), hexOf(randBytes(c, n)))
			c.Count("len_boundary")
		}
	}
	// big records that are really present (64 KiB boundary and above), never at offset 0 and followed by further values:
	// the position after the big read and everything read after it is compared
	bigSizes := []int{65535, 65536, 65537, 70000, 1 << 20}
	for i := 0; i < c.Budget(0, 6); i++ {
		bigSizes = append(bigSizes, c.Rng.Range(65536, 400000))
	}
	for _, n := range bigSizes {
		for _, t := range []string{"B:", "S:"} {
			if n == 1<<20 && !c.Thorough() && (t == "S:") == c.Rng.Bool() {
				continue // quick tier: the 1 MiB record once, as bytes or as string
			}
			pre := []string{"y:07", "i:" + strconv.FormatInt(int64(randI32(c)), 10), "S:616263"}[:c.Rng.Range(1, 3)]
			post := []string{"h:-2", "S:6f6b", "b:1", "B:" + hexOf(randBytes(c, c.Rng.Range(1, 60))), "v:300", "l:-9"}[:c.Rng.Range(2, 6)]
			c.Emit("seq | %s ; %s%s ; %s", strings.Join(pre, " ; "), t, hexOf(randBytes(c, n)), strings.Join(post, " ; "))
			c.Count("big_record_64KiB_and_above")
		}
	}
	for i := 0; i < c.Budget(2, 12); i++ { // 3-byte prefixes well above 16384, 4-byte prefix (2^21) in the thorough tier
		n := c.Rng.Range(16386, 100000)
		if c.Thorough() && i%4 == 0 {
			n = 1<<21 - 1 + c.Rng.Intn(3)
		}
		c.Emit("seq | h:7 ; B:%s ; S:%s ; v:-1", hexOf(randBytes(c, n)), hexOf(randBytes(c, c.Rng.Range(1, 40))))
		c.Count("len_large")
	}
	for i := 0; i < c.Budget(1500, 20000); i++ {
		t := "B:"
		if c.Rng.Bool() {
			t = "S:"
		}
		c.Emit("seq | %s%s", t, hexOf(randBytes(c, randLen(c, i%c.Budget(100, 400) == 0))))
		c.Count("bytes_random")
	}

	// 5a. hash collisions: distinct equal-length strings colliding under the usual cheap 32-bit hashes (and their 16-bit
	// truncations), written and read back-to-back and interleaved by ONE writer / reader pair, as strings and as byte slices
	collisionLens := []int{3, 4, 5, 6, 7, 8, 9, 10, 11, 12, 13, 14, 15, 16, 17, 24, 33, 64}
	cols := findCollisions(hx.NewRng(c.Seed^0x5eedc011), c.Budget(150000, 400000), c.Budget(1, 3), collisionLens)
	for _, col := range cols {
		a, b := hexOf(col.vals[0]), hexOf(col.vals[1])
		x := hexOf(randBytes(c, len(col.vals[0]))) // an unrelated value of the same length
		if len(col.vals) > 2 {
			x = hexOf(col.vals[2])
		}
		c.Emit("seq | S:%s ; S:%s ; S:%s ; S:%s", a, b, a, b)
		c.Emit("seq | S:%s ; S:%s ; S:%s ; i:7 ; S:%s ; S:%s", a, a, b, x, b)
		c.Emit("seq | B:%s ; B:%s ; S:%s ; v:300 ; S:%s ; B:%s ; S:%s ; h:-2 ; S:%s ; B:%s", a, b, b, a, x, a, b, a)
		c.Count("hash_collision_set")
		c.Count("hash_collision_" + col.hash)
	}

	// 5b. concurrency: 8 goroutines, each with its own private stream / writer / reader, repeat their own sequence R times at
	// the same time; bytes and read-back values must equal the sequential run of the same sequence
	for i := 0; i < c.Budget(16, 120); i++ {
		bodies := make([]string, 8)
		for g := range bodies {
			n := c.Rng.Range(6, 24)
			toks := make([]string, n)
			for j := range toks {
				toks[j] = concVal(c)
			}
			bodies[g] = strings.Join(toks, " ; ")
		}
		c.Emit("conc %d | %s", c.Budget(10000, 30000), strings.Join(bodies, " || "))
		c.Count("concurrent_8_private_streams")
	}

	// 5c'. every LEB128 prefix-width boundary +-1 for WriteBytes AND WriteString, written and read back, through the compact
	// `giant` form (payload from a formula, compared by prefix bytes / lengths / CRC / positions; cheap up to 2 MiB)
	for _, n := range []int{127, 128, 129, 16383, 16384, 16385, 1<<21 - 1, 1 << 21, 1<<21 + 1} {
		for _, k := range []string{"B", "S"} {
			c.Emit("giant %s %d %d", k, n, c.Rng.U64()>>16)
			c.Count("prefix_width_boundary_record")
		}
	}

	// 5c. giant payloads (thorough tier only, about 1 GiB per case): the 5-byte length prefix starts at 2^28 bytes
	if c.Thorough() {
		if avail := memAvailableMiB(); avail >= 0 && avail < 3072 {
			c.Count("giant_payload_skipped_less_than_3GiB_available")
		} else {
			for _, g := range []string{"B 268435455", "B 268435456", "S 268435456", "B 268435457"} {
				c.Emit("giant %s %d", g, c.Rng.U64()>>16)
				c.Count("giant_payload_2^28")
			}
		}
	}

	// 6. random typed sequences
	for i := 0; i < c.Budget(10000, 120000); i++ {
		n := c.Rng.Range(1, 12)
		toks := make([]string, n)
		for j := range toks {
			toks[j] = randVal(c, i%c.Budget(250, 1000) == 0)
		}
		c.Emit("seq | %s", strings.Join(toks, " ; "))
		c.Count("typed_sequence")
	}
}
