package main

// Two further line forms of the C11 harness.
//
//	conc <R> | <body> || <body> || ...
//
// Every body is a sequence as in `seq | <body>`. First each body is run sequentially (write, Bytes(), read back: the same
// observation as a seq line). Then one goroutine per body (8 in generated cases) is started behind a common barrier; each has
// its OWN private stream, writer and reader and repeats R times: write its values, compare Bytes() with its sequential bytes,
// read everything back and compare with what it wrote. Independent streams in different goroutines must not influence each
// other (hidden package-level state would).
// Output:  <obs of body 1> || <obs of body 2> || ... || conc=ok      or   ... || conc=FAIL g<k> rep<r> <what>
//
//	giant <B|S> <n> <seed>          (thorough tier only; needs about 1 GiB per case)
//
// One byte 0xA5, then a byte slice / string of n bytes (payload byte i = pay(i mod 65536, seed), see payByte), then int16 -2.
// Output:  head=<5 bytes behind the 0xA5> len=<Len()> crc=<CRC-32 of the last n+2.. bytes: the n payload bytes in front of the
// trailing int16> | y:a5@1 rlen=<len of the value read back> rcrc=<its CRC-32> pos=<Position()> next=<int16 read behind it>@<Position()>

import (
	"bytes"
	"fmt"
	"hash/crc32"
	"runtime"
	"runtime/debug"
	"strconv"
	"strings"
	"sync"
	"unsafe"

	"github.com/lixianmin/got/iox"
)

// observe runs one body sequentially and renders the observation of a seq line (without the alias part)
func observe(toks []tok) (obs string, wire []byte) {
	stream := &iox.OctetsStream{}
	w := iox.NewOctetsWriter(stream)
	for _, k := range toks {
		if _, err := writeOne(w, k); err != nil {
			return "bytes=write-error-" + errName(err), nil
		}
	}
	wire = append([]byte(nil), stream.Bytes()...)
	var sb strings.Builder
	sb.WriteString("bytes=")
	sb.WriteString(hexOf(wire))
	sb.WriteString(" |")
	r := iox.NewOctetsReader(stream)
	for i, k := range toks {
		sb.WriteByte(' ')
		sb.WriteString(k.t)
		sb.WriteByte(':')
		sb.WriteString(readOne(r, k, i, nil))
		sb.WriteByte('@')
		sb.WriteString(strconv.Itoa(stream.Position()))
	}
	fmt.Fprintf(&sb, " | len=%d pos=%d", stream.Len(), stream.Position())
	return sb.String(), wire
}

// typed value for the allocation-light concurrent loop
type tval struct {
	t byte
	i int64
	b []byte
	s string
}

func parseVals(toks []tok) []tval {
	out := make([]tval, len(toks))
	for i, k := range toks {
		v := tval{t: k.t[0]}
		switch k.t {
		case "b":
			if k.p == "1" {
				v.i = 1
			}
		case "y":
			v.i = int64(unhex(k.p)[0])
		case "h", "i", "l", "v":
			n, err := strconv.ParseInt(k.p, 10, 64)
			if err != nil {
				panic(err)
			}
			v.i = n
		case "B", "R":
			v.b = unhex(k.p)
		case "S":
			v.s = string(unhex(k.p))
		default:
			panic("bad type tag " + k.t)
		}
		out[i] = v
	}
	return out
}

// one repetition on a private stream: "" or a description of the first difference
func concRound(vals []tval, wire []byte, scratch []byte) string {
	stream := &iox.OctetsStream{}
	w := iox.NewOctetsWriter(stream)
	for _, v := range vals {
		switch v.t {
		case 'b':
			_ = w.WriteBool(v.i == 1)
		case 'y':
			_ = w.WriteByte(byte(v.i))
		case 'h':
			_ = w.WriteInt16(int16(v.i))
		case 'i':
			_ = w.WriteInt32(int32(v.i))
		case 'l':
			_ = w.WriteInt64(v.i)
		case 'v':
			_ = w.Write7BitEncodedInt(int32(v.i))
		case 'B':
			_ = w.WriteBytes(v.b)
		case 'S':
			_ = w.WriteString(v.s)
		case 'R':
			_ = stream.Write(v.b)
		}
	}
	if got := stream.Bytes(); !bytes.Equal(got, wire) {
		g, x := hexOf(got), hexOf(wire)
		if len(g) > 160 {
			g = g[:160] + "..."
		}
		if len(x) > 160 {
			x = x[:160] + "..."
		}
		return "bytes got=" + g + " sequential=" + x
	}
	r := iox.NewOctetsReader(stream)
	for i, v := range vals {
		ok := true
		switch v.t {
		case 'b':
			x, err := r.ReadBool()
			ok = err == nil && x == (v.i == 1)
		case 'y':
			x, err := r.ReadByte()
			ok = err == nil && int64(x) == v.i
		case 'h':
			x, err := r.ReadInt16()
			ok = err == nil && int64(x) == v.i
		case 'i':
			x, err := r.ReadInt32()
			ok = err == nil && int64(x) == v.i
		case 'l':
			x, err := r.ReadInt64()
			ok = err == nil && x == v.i
		case 'v':
			x, err := r.Read7BitEncodedInt()
			ok = err == nil && int64(x) == v.i
		case 'B':
			x, err := r.ReadBytes()
			ok = err == nil && bytes.Equal(x, v.b)
		case 'S':
			x, err := r.ReadString()
			ok = err == nil && x == v.s
		case 'R':
			if len(v.b) > 0 {
				buf := scratch[:len(v.b)]
				n, err := stream.Read(buf)
				ok = err == nil && n == len(v.b) && bytes.Equal(buf, v.b)
			}
		}
		if !ok {
			return fmt.Sprintf("readback value#%d (%c)", i, v.t)
		}
	}
	if stream.Position() != stream.Len() {
		return fmt.Sprintf("position %d len %d", stream.Position(), stream.Len())
	}
	return ""
}

func execConc(line string) string {
	parts := strings.SplitN(line, "|", 2)
	head := strings.Fields(parts[0])
	if len(parts) != 2 || len(head) != 2 {
		return "bad-op"
	}
	reps, err := strconv.Atoi(head[1])
	if err != nil {
		return "bad-op"
	}
	var bodies [][]tok
	for _, b := range strings.Split(parts[1], "||") {
		if strings.TrimSpace(b) == "" {
			continue
		}
		bodies = append(bodies, splitToks("seq |"+b))
	}
	out := make([]string, 0, len(bodies)+1)
	wires := make([][]byte, len(bodies))
	vals := make([][]tval, len(bodies))
	for g, toks := range bodies {
		obs, wire := observe(toks)
		out = append(out, obs)
		wires[g] = wire
		vals[g] = parseVals(toks)
	}
	fails := make([]string, len(bodies))
	start := make(chan struct{})
	var wg sync.WaitGroup
	for g := range bodies {
		if wires[g] == nil {
			continue
		}
		wg.Add(1)
		go func(g int) {
			defer wg.Done()
			defer func() {
				if e := recover(); e != nil {
					fails[g] = fmt.Sprintf("g%d panic", g)
				}
			}()
			max := 1
			for _, v := range vals[g] {
				if len(v.b) > max {
					max = len(v.b)
				}
			}
			scratch := make([]byte, max)
			<-start
			for rep := 0; rep < reps; rep++ {
				if f := concRound(vals[g], wires[g], scratch); f != "" {
					fails[g] = fmt.Sprintf("g%d rep%d %s", g, rep, f)
					return
				}
			}
		}(g)
	}
	close(start)
	wg.Wait()
	res := "conc=ok"
	for _, f := range fails {
		if f != "" {
			res = "conc=FAIL " + f
			break
		}
	}
	return strings.Join(append(out, res), " || ")
}

// payload byte i of a giant record
func payByte(j uint64, seed uint64) byte { return byte((j*0x9E3779B1 + seed) >> 16) }

func execGiant(line string) string {
	f := strings.Fields(line)
	if len(f) != 4 || (f[1] != "B" && f[1] != "S") {
		return "bad-op"
	}
	n, err1 := strconv.Atoi(f[2])
	seed, err2 := strconv.ParseUint(f[3], 10, 64)
	if err1 != nil || err2 != nil || n < 16 {
		return "bad-op"
	}
	defer func() {
		runtime.GC()
		debug.FreeOSMemory()
	}()
	block := make([]byte, 65536)
	for j := range block {
		block[j] = payByte(uint64(j), seed)
	}
	payload := make([]byte, n)
	for off := 0; off < n; off += 65536 {
		copy(payload[off:], block)
	}
	stream := &iox.OctetsStream{}
	w := iox.NewOctetsWriter(stream)
	_ = w.WriteByte(0xA5)
	var err error
	if f[1] == "B" {
		err = w.WriteBytes(payload)
	} else {
		err = w.WriteString(unsafe.String(unsafe.SliceData(payload), len(payload)))
	}
	if err != nil {
		return "write-error-" + errName(err)
	}
	_ = w.WriteInt16(-2)
	all := stream.Bytes()
	if len(all) < n+4 {
		return fmt.Sprintf("head=? len=%d", len(all))
	}
	var sb strings.Builder
	fmt.Fprintf(&sb, "head=%s len=%d crc=%08x |", hexOf(all[1:6]), stream.Len(), crc32.ChecksumIEEE(all[len(all)-2-n:len(all)-2]))
	payload = nil
	r := iox.NewOctetsReader(stream)
	b0, e0 := r.ReadByte()
	if e0 != nil {
		fmt.Fprintf(&sb, " y:err-%s@%d", errName(e0), stream.Position())
	} else {
		fmt.Fprintf(&sb, " y:%02x@%d", b0, stream.Position())
	}
	var got []byte
	if f[1] == "B" {
		got, err = r.ReadBytes()
	} else {
		var s string
		s, err = r.ReadString()
		got = unsafe.Slice(unsafe.StringData(s), len(s))
	}
	if err != nil {
		fmt.Fprintf(&sb, " rerr=%s pos=%d", errName(err), stream.Position())
	} else {
		fmt.Fprintf(&sb, " rlen=%d rcrc=%08x pos=%d", len(got), crc32.ChecksumIEEE(got), stream.Position())
	}
	got = nil
	x, e2 := r.ReadInt16()
	if e2 != nil {
		fmt.Fprintf(&sb, " next=err-%s@%d", errName(e2), stream.Position())
	} else {
		fmt.Fprintf(&sb, " next=%d@%d", x, stream.Position())
	}
	return sb.String()
}
