package main

// Range protocol: one script line `range32 <block>` covers the 2^16 consecutive int32 bit patterns block<<16 .. block<<16|0xffff.
// For every value v: WriteInt32(v) and Write7BitEncodedInt(v) on a fresh stream, then ReadInt32 and Read7BitEncodedInt.
// Folded into one CRC-32 (IEEE) per block, in this order per value:
//   the bytes written | decoded fixed value (4 bytes LE) or 0xEE <err> | Position() (1 byte) |
//   decoded 7-bit value (4 bytes LE) or 0xEE <err> | Position() (1 byte)
// Output: crc=<8 hex digits>. The Lean driver folds the model's results the same way; the Python oracle folds the
// documented wire format. A mismatching block is re-run value by value (seq lines) by the check.

import (
	"fmt"
	"hash/crc32"
	"strconv"

	"github.com/lixianmin/got/iox"
)

func errCode(err error) byte {
	switch err {
	case iox.ErrNotEnoughData:
		return 1
	case iox.ErrBad7BitInt:
		return 2
	case iox.ErrNegativeSize:
		return 3
	case iox.ErrInvalidArgument:
		return 4
	}
	return 9
}

func execRange(arg string) string {
	b64, err := strconv.ParseUint(arg, 10, 16)
	if err != nil {
		return "bad-op"
	}
	block := uint32(b64)
	tab := crc32.IEEETable
	crc := uint32(0)
	var tmp [16]byte
	put := func(n int, v int32, err error) int {
		if err != nil {
			tmp[n] = 0xEE
			tmp[n+1] = errCode(err)
			return n + 2
		}
		u := uint32(v)
		tmp[n], tmp[n+1], tmp[n+2], tmp[n+3] = byte(u), byte(u>>8), byte(u>>16), byte(u>>24)
		return n + 4
	}
	for k := uint32(0); k < 65536; k++ {
		v := int32(block<<16 | k)
		stream := &iox.OctetsStream{}
		w := iox.NewOctetsWriter(stream)
		_ = w.WriteInt32(v)
		_ = w.Write7BitEncodedInt(v)
		crc = crc32.Update(crc, tab, stream.Bytes())
		r := iox.NewOctetsReader(stream)
		a, e1 := r.ReadInt32()
		n := put(0, a, e1)
		tmp[n] = byte(stream.Position())
		n++
		c, e2 := r.Read7BitEncodedInt()
		n = put(n, c, e2)
		tmp[n] = byte(stream.Position())
		n++
		crc = crc32.Update(crc, tab, tmp[:n])
	}
	return fmt.Sprintf("crc=%08x", crc)
}
