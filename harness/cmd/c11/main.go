// C11 harness: differential write/read-back of typed values through the real iox codec.
//
//	seq | <t>:<payload> ; <t>:<payload> ; ...
//
// t = b bool (0|1), y byte (2 hex digits), h int16, i int32, l int64, v 7-bit encoded int32 (signed decimal),
// B bytes, S string, R raw stream.Write / stream.Read (hex, "-" = empty).
// All values are written in order with the real OctetsWriter / OctetsStream, Bytes() is printed, then the matching
// read calls are made in order with the real OctetsReader / OctetsStream:
//
//	bytes=<hex> | <t>:<value>@<Position()> ... | len=<Len()> pos=<Position()>
//
// A second line form, `range32 <block>`, covers 2^16 consecutive int32 values with one CRC (see range.go).
package main

import (
	"encoding/hex"
	"fmt"
	"strconv"
	"strings"

	"github.com/lixianmin/got/iox"
	"verif/harness/hx"
)

func hexOf(b []byte) string {
	if len(b) == 0 {
		return "-"
	}
	return hex.EncodeToString(b)
}

func unhex(s string) []byte {
	if s == "-" {
		return []byte{}
	}
	b, err := hex.DecodeString(s)
	if err != nil {
		panic("bad hex in script: " + s)
	}
	return b
}

func errName(err error) string {
	switch err {
	case iox.ErrNotEnoughData:
		return "NotEnoughData"
	case iox.ErrBad7BitInt:
		return "Bad7BitInt"
	case iox.ErrNegativeSize:
		return "NegativeSize"
	case iox.ErrInvalidArgument:
		return "InvalidArgument"
	}
	return "Other(" + strings.ReplaceAll(err.Error(), " ", "_") + ")"
}

type tok struct {
	t string
	p string
}

func splitToks(line string) []tok {
	parts := strings.SplitN(line, "|", 2)
	if len(parts) != 2 || strings.TrimSpace(parts[0]) != "seq" {
		panic("bad script line")
	}
	var out []tok
	for _, f := range strings.Split(parts[1], ";") {
		f = strings.TrimSpace(f)
		if f == "" {
			continue
		}
		i := strings.IndexByte(f, ':')
		out = append(out, tok{f[:i], f[i+1:]})
	}
	return out
}

func writeOne(w *iox.OctetsWriter, k tok) error {
	switch k.t {
	case "b":
		return w.WriteBool(k.p == "1")
	case "y":
		return w.WriteByte(unhex(k.p)[0])
	case "h":
		v, err := strconv.ParseInt(k.p, 10, 16)
		if err != nil {
			panic(err)
		}
		return w.WriteInt16(int16(v))
	case "i":
		v, err := strconv.ParseInt(k.p, 10, 32)
		if err != nil {
			panic(err)
		}
		return w.WriteInt32(int32(v))
	case "l":
		v, err := strconv.ParseInt(k.p, 10, 64)
		if err != nil {
			panic(err)
		}
		return w.WriteInt64(v)
	case "v":
		v, err := strconv.ParseInt(k.p, 10, 32)
		if err != nil {
			panic(err)
		}
		return w.Write7BitEncodedInt(int32(v))
	case "B":
		return w.WriteBytes(unhex(k.p))
	case "S":
		return w.WriteString(string(unhex(k.p)))
	case "R":
		return w.Stream().Write(unhex(k.p))
	}
	panic("bad type tag " + k.t)
}

func readOne(r *iox.OctetsReader, k tok) (out string) {
	defer func() {
		if e := recover(); e != nil {
			out = "panic"
		}
	}()
	var err error
	var s string
	switch k.t {
	case "b":
		var v bool
		v, err = r.ReadBool()
		s = "0"
		if v {
			s = "1"
		}
	case "y":
		var v byte
		v, err = r.ReadByte()
		s = hexOf([]byte{v})
	case "h":
		var v int16
		v, err = r.ReadInt16()
		s = strconv.FormatInt(int64(v), 10)
	case "i":
		var v int32
		v, err = r.ReadInt32()
		s = strconv.FormatInt(int64(v), 10)
	case "l":
		var v int64
		v, err = r.ReadInt64()
		s = strconv.FormatInt(v, 10)
	case "v":
		var v int32
		v, err = r.Read7BitEncodedInt()
		s = strconv.FormatInt(int64(v), 10)
	case "B":
		var v []byte
		v, err = r.ReadBytes()
		s = hexOf(v)
	case "S":
		var v string
		v, err = r.ReadString()
		s = hexOf([]byte(v))
	case "R":
		n := len(unhex(k.p))
		buf := make([]byte, n)
		var c int
		c, err = r.Stream().Read(buf)
		if c < 0 || c > n {
			return fmt.Sprintf("badcount%d", c)
		}
		s = hexOf(buf[:c])
	default:
		panic("bad type tag " + k.t)
	}
	if err != nil {
		return "err-" + errName(err)
	}
	return s
}

func exec(c *hx.Ctx, line string) string {
	if strings.HasPrefix(line, "range32 ") {
		return execRange(strings.TrimSpace(line[8:]))
	}
	toks := splitToks(line)
	stream := &iox.OctetsStream{}
	w := iox.NewOctetsWriter(stream)
	for _, k := range toks {
		if err := writeOne(w, k); err != nil {
			return "bytes=write-error-" + errName(err)
		}
	}
	var sb strings.Builder
	sb.WriteString("bytes=")
	sb.WriteString(hexOf(stream.Bytes()))
	sb.WriteString(" |")
	r := iox.NewOctetsReader(stream)
	for _, k := range toks {
		sb.WriteByte(' ')
		sb.WriteString(k.t)
		sb.WriteByte(':')
		sb.WriteString(readOne(r, k))
		sb.WriteByte('@')
		sb.WriteString(strconv.Itoa(stream.Position()))
	}
	fmt.Fprintf(&sb, " | len=%d pos=%d", stream.Len(), stream.Position())
	return sb.String()
}

func main() { hx.Main(gen, exec) }
