// C11 harness: differential write/read-back of typed values through the real iox codec.
//
//	seq | <t>:<payload> ; <t>:<payload> ; ...
//
// t = b bool (0|1), y byte (2 hex digits), h int16, i int32, l int64, v 7-bit encoded int32 (signed decimal),
// B bytes, S string, R raw stream.Write / stream.Read (hex, "-" = empty).
// All values are written in order with the real OctetsWriter / OctetsStream, Bytes() is printed, then the matching
// read calls are made in order with the real OctetsReader / OctetsStream:
//
//	bytes=<hex> | <t>:<value>@<Position()> ... | len=<Len()> pos=<Position()> | alias=ok
//
// Alias phase (values the caller keeps must stay what was written; the stream must not keep the caller's buffers):
//  1. after the writes the caller's input slices of WriteBytes / WriteString (a zero-copy string over a caller buffer) /
//     stream.Write are overwritten: Bytes() must not change;
//  2. every decoded string and byte slice is kept; after the reads: Tidy() + Write(0xEE block as long as the data), then
//     Reset() + Write(0xDD block): the kept values must still equal what was written;
//  3. on a second fresh stream only the first half of the values is read, then Tidy() (memmove of the unread rest over the
//     consumed region): kept values must be unchanged and the remaining reads must give the same results as before.
// `alias=FAIL <what>#<index of the value>` names the first violation. (The model has value semantics: always `alias=ok`.)
//
// A second line form, `range32 <block>`, covers 2^16 consecutive int32 values with one CRC (see range.go); `conc ...` runs
// several sequences concurrently on private streams and `giant ...` writes one record of 2^28 bytes and more (see conc.go).
package main

import (
	"bytes"
	"encoding/hex"
	"fmt"
	"strconv"
	"strings"
	"unsafe"

	"github.com/lixianmin/got/iox"
	"verif/harness/hx"
)

func hexOf(b []byte) string {
	if len(b) == 0 {
		return "-"
	}
	return hex.EncodeToString(b)
}

func unhex(s string) []byte {
	if s == "-" {
		return []byte{}
	}
	b, err := hex.DecodeString(s)
	if err != nil {
		panic("bad hex in script: " + s)
	}
	return b
}

func errName(err error) string {
	switch err {
	case iox.ErrNotEnoughData:
		return "NotEnoughData"
	case iox.ErrBad7BitInt:
		return "Bad7BitInt"
	case iox.ErrNegativeSize:
		return "NegativeSize"
	case iox.ErrInvalidArgument:
		return "InvalidArgument"
	}
	return "Other(" + strings.ReplaceAll(err.Error(), " ", "_") + ")"
}

type tok struct {
	t string
	p string
}

func splitToks(line string) []tok {
	parts := strings.SplitN(line, "|", 2)
	if len(parts) != 2 || strings.TrimSpace(parts[0]) != "seq" {
		panic("bad script line")
	}
	var out []tok
	for _, f := range strings.Split(parts[1], ";") {
		f = strings.TrimSpace(f)
		if f == "" {
			continue
		}
		i := strings.IndexByte(f, ':')
		out = append(out, tok{f[:i], f[i+1:]})
	}
	return out
}

// writeOne writes one value; the caller-owned buffer handed to the writer (if any) is returned so that the alias phase
// can overwrite it afterwards.
func writeOne(w *iox.OctetsWriter, k tok) ([]byte, error) {
	switch k.t {
	case "b":
		return nil, w.WriteBool(k.p == "1")
	case "y":
		return nil, w.WriteByte(unhex(k.p)[0])
	case "h":
		v, err := strconv.ParseInt(k.p, 10, 16)
		if err != nil {
			panic(err)
		}
		return nil, w.WriteInt16(int16(v))
	case "i":
		v, err := strconv.ParseInt(k.p, 10, 32)
		if err != nil {
			panic(err)
		}
		return nil, w.WriteInt32(int32(v))
	case "l":
		v, err := strconv.ParseInt(k.p, 10, 64)
		if err != nil {
			panic(err)
		}
		return nil, w.WriteInt64(v)
	case "v":
		v, err := strconv.ParseInt(k.p, 10, 32)
		if err != nil {
			panic(err)
		}
		return nil, w.Write7BitEncodedInt(int32(v))
	case "B":
		in := unhex(k.p)
		return in, w.WriteBytes(in)
	case "S":
		// a string that shares memory with a caller buffer (what convert.String produces)
		in := unhex(k.p)
		return in, w.WriteString(unsafe.String(unsafe.SliceData(in), len(in)))
	case "R":
		in := unhex(k.p)
		return in, w.Stream().Write(in)
	}
	panic("bad type tag " + k.t)
}

// kept is a decoded string / byte slice the caller holds on to
type kept struct {
	idx int
	s   *string
	b   []byte
	isB bool
}

func (k kept) equal(want []byte) bool {
	if k.isB {
		return bytes.Equal(k.b, want)
	}
	return *k.s == string(want)
}

func readOne(r *iox.OctetsReader, k tok, idx int, keep *[]kept) (out string) {
	defer func() {
		if e := recover(); e != nil {
			out = "panic"
		}
	}()
	var err error
	var s string
	switch k.t {
	case "b":
		var v bool
		v, err = r.ReadBool()
		s = "0"
		if v {
			s = "1"
		}
	case "y":
		var v byte
		v, err = r.ReadByte()
		s = hexOf([]byte{v})
	case "h":
		var v int16
		v, err = r.ReadInt16()
		s = strconv.FormatInt(int64(v), 10)
	case "i":
		var v int32
		v, err = r.ReadInt32()
		s = strconv.FormatInt(int64(v), 10)
	case "l":
		var v int64
		v, err = r.ReadInt64()
		s = strconv.FormatInt(v, 10)
	case "v":
		var v int32
		v, err = r.Read7BitEncodedInt()
		s = strconv.FormatInt(int64(v), 10)
	case "B":
		var v []byte
		v, err = r.ReadBytes()
		s = hexOf(v)
		if err == nil && keep != nil {
			*keep = append(*keep, kept{idx: idx, b: v, isB: true})
		}
	case "S":
		var v string
		v, err = r.ReadString()
		s = hexOf([]byte(v))
		if err == nil && keep != nil {
			*keep = append(*keep, kept{idx: idx, s: &v})
		}
	case "R":
		n := len(unhex(k.p))
		buf := make([]byte, n)
		var c int
		c, err = r.Stream().Read(buf)
		if c < 0 || c > n {
			return fmt.Sprintf("badcount%d", c)
		}
		s = hexOf(buf[:c])
	default:
		panic("bad type tag " + k.t)
	}
	if err != nil {
		return "err-" + errName(err)
	}
	return s
}

func fill(n int, b byte) []byte {
	if n < 1 {
		n = 1
	}
	out := make([]byte, n)
	for i := range out {
		out[i] = b
	}
	return out
}

func checkKept(ks []kept, want [][]byte, what string) string {
	for _, k := range ks {
		if !k.equal(want[k.idx]) {
			return fmt.Sprintf("FAIL %s#%d", what, k.idx)
		}
	}
	return ""
}

func exec(c *hx.Ctx, line string) string {
	if strings.HasPrefix(line, "range32 ") {
		return execRange(strings.TrimSpace(line[8:]))
	}
	if strings.HasPrefix(line, "conc ") {
		return execConc(line)
	}
	if strings.HasPrefix(line, "giant ") {
		return execGiant(line)
	}
	toks := splitToks(line)
	want := make([][]byte, len(toks)) // private copies of the byte payloads that were written
	for i, k := range toks {
		if k.t == "B" || k.t == "S" || k.t == "R" {
			want[i] = unhex(k.p)
		}
	}
	stream := &iox.OctetsStream{}
	w := iox.NewOctetsWriter(stream)
	inputs := make([][]byte, len(toks))
	for i, k := range toks {
		in, err := writeOne(w, k)
		if err != nil {
			return "bytes=write-error-" + errName(err)
		}
		inputs[i] = in
	}
	wire := append([]byte(nil), stream.Bytes()...)
	alias := ""
	// alias 1: the caller reuses its input buffers
	for _, in := range inputs {
		for j := range in {
			in[j] ^= 0xff
		}
	}
	if !bytes.Equal(stream.Bytes(), wire) {
		alias = "FAIL write-input"
		for i, in := range inputs {
			if len(in) > 0 {
				alias = fmt.Sprintf("FAIL write-input#%d", i)
				break
			}
		}
	}
	var sb strings.Builder
	sb.WriteString("bytes=")
	sb.WriteString(hexOf(wire))
	sb.WriteString(" |")
	r := iox.NewOctetsReader(stream)
	var keep []kept
	texts := make([]string, len(toks))
	for i, k := range toks {
		texts[i] = readOne(r, k, i, &keep)
		sb.WriteByte(' ')
		sb.WriteString(k.t)
		sb.WriteByte(':')
		sb.WriteString(texts[i])
		sb.WriteByte('@')
		sb.WriteString(strconv.Itoa(stream.Position()))
	}
	fmt.Fprintf(&sb, " | len=%d pos=%d", stream.Len(), stream.Position())
	if alias == "" {
		alias = hx.SafeExec(func() string { return aliasPhase(toks, want, stream, keep, texts, len(wire)) })
		if strings.HasPrefix(alias, "panic") {
			alias = "FAIL panic"
		}
	}
	if alias == "" {
		alias = "ok"
	}
	sb.WriteString(" | alias=")
	sb.WriteString(alias)
	return sb.String()
}

// aliasPhase: see the file comment. Returns "" or "FAIL <what>#<index>".
func aliasPhase(toks []tok, want [][]byte, stream *iox.OctetsStream, keep []kept, texts []string, n int) string {
	// the values as decoded (sanity of the bookkeeping; a difference here is also a round-trip failure)
	if f := checkKept(keep, want, "kept-value"); f != "" {
		return f
	}
	// alias 2: compaction / reuse of the stream after the reads
	stream.Tidy()
	_ = stream.Write(fill(n, 0xEE))
	if f := checkKept(keep, want, "tidy+write"); f != "" {
		return f
	}
	stream.Reset()
	_ = stream.Write(fill(n, 0xDD))
	if f := checkKept(keep, want, "reset+write"); f != "" {
		return f
	}
	if len(toks) < 2 {
		return ""
	}
	// alias 3: Tidy in the middle of the sequence (memmove of the unread rest over the consumed region)
	s2 := &iox.OctetsStream{}
	w2 := iox.NewOctetsWriter(s2)
	for _, k := range toks {
		if _, err := writeOne(w2, k); err != nil {
			return "FAIL rewrite"
		}
	}
	r2 := iox.NewOctetsReader(s2)
	half := (len(toks) + 1) / 2
	var keep2 []kept
	for i := 0; i < half; i++ {
		if t := readOne(r2, toks[i], i, &keep2); t != texts[i] {
			return fmt.Sprintf("FAIL reread#%d", i)
		}
	}
	s2.Tidy()
	if f := checkKept(keep2, want, "tidy-memmove"); f != "" {
		return f
	}
	for i := half; i < len(toks); i++ {
		if t := readOne(r2, toks[i], i, &keep2); t != texts[i] {
			return fmt.Sprintf("FAIL read-after-tidy#%d", i)
		}
	}
	_ = s2.Write(fill(n, 0xEE))
	if f := checkKept(keep2, want, "tidy+read+write"); f != "" {
		return f
	}
	return ""
}

func main() { hx.Main(gen, exec) }
