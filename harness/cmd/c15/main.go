// C15 harness: the real sortx.SliceBy with a logging less closure, and the real UniqueInt/UniqueString.
//
//	slice <mode> <keys> | <nvals>     keys: comma separated ints ("-" = empty); values 0..nvals-1 (original index)
//	    mode int      []int keys,    values []string,            less = keys[i] < keys[j]
//	    mode str      []string keys (order preserving encoding), values []struct, less = keys[i] < keys[j]
//	    mode adv=S    []int keys,    values []int,     less(i,j) = mix(S,i,j)              (inconsistent)
//	    mode advk=S   []int keys,    values []uint16 / []int64,  less(i,j) = mix(S,keys[i],keys[j])
//	  -> k <keys> v <value ids> n <#Less> h <hash of Less log> [log i:j:r ...] ; d <max nesting of quickSort_func> hs <heapSort seen>
//	     (the part after " ; " is measured from the call stack inside less and is not part of the model comparison)
//	unique <int|str> <elems>
//	  -> r <returned slice> b <backing array after the call>
package main

import (
	"fmt"
	"math/bits"
	"runtime"
	"strconv"
	"strings"

	"github.com/lixianmin/got/sortx"
	"verif/harness/hx"
)

func parseInts(s string) []int {
	if s == "-" {
		return []int{}
	}
	parts := strings.Split(s, ",")
	out := make([]int, len(parts))
	for i, p := range parts {
		v, err := strconv.Atoi(p)
		if err != nil {
			panic("bad int " + p)
		}
		out[i] = v
	}
	return out
}

func showInts(a []int) string {
	if len(a) == 0 {
		return "-"
	}
	var sb strings.Builder
	for i, v := range a {
		if i > 0 {
			sb.WriteByte(',')
		}
		sb.WriteString(strconv.Itoa(v))
	}
	return sb.String()
}

func mix(seed, x, y uint64) bool {
	z := seed ^ (x * 0x9E3779B97F4A7C15) ^ (y * 0xC2B2AE3D27D4EB4F)
	z ^= z >> 29
	z *= 0xBF58476D1CE4E5B9
	z ^= z >> 32
	return z&1 == 1
}

const strOff = 500000000000

func encStr(k int) string { return fmt.Sprintf("%013d", k+strOff) }
func decStr(s string) int {
	v, _ := strconv.Atoi(strings.TrimLeft(s, "0"))
	if strings.Trim(s, "0") == "" {
		v = 0
	}
	return v - strOff
}

type rec struct {
	A  int32
	B  string
	ID int
}

// stack inspection from inside less: nesting depth of quickSort_func and presence of heapSort_func.
// Frames are classified per return PC (inlined frames expanded by CallersFrames) and cached.
type pcKind struct {
	qs   int
	heap bool
}

var pcCache = map[uintptr]pcKind{}

func classify(pc uintptr) pcKind {
	if k, ok := pcCache[pc]; ok {
		return k
	}
	var k pcKind
	frames := runtime.CallersFrames([]uintptr{pc})
	for {
		f, more := frames.Next()
		if strings.HasSuffix(f.Function, "sortx.quickSort_func") {
			k.qs++
		} else if strings.HasSuffix(f.Function, "sortx.heapSort_func") {
			k.heap = true
		}
		if !more {
			break
		}
	}
	pcCache[pc] = k
	return k
}

func stackInfo() (depth int, heap bool) {
	var pcs [512]uintptr
	n := runtime.Callers(2, pcs[:])
	for _, pc := range pcs[:n] {
		k := classify(pc)
		depth += k.qs
		heap = heap || k.heap
	}
	return
}

type meter struct {
	n        int // min(len keys, len values)
	count    int
	limit    int
	hash     uint64
	log      strings.Builder
	maxDepth int
	heap     bool
	every    int
}

func newMeter(n int) *meter {
	lg := bits.Len(uint(n))
	m := &meter{n: n, hash: 0xcbf29ce484222325, limit: 64*n*(lg+2) + 1000, every: 1}
	// unwinding the stack costs a few microseconds: sample (prime strides; a heapSort_func call on a
	// range of more than 12 elements makes dozens of consecutive Less calls)
	switch {
	case n <= 24:
		m.every = 1
	case n <= 100:
		m.every = 5
	case n <= 6000:
		m.every = 23
	default:
		m.every = 211
	}
	return m
}

func (m *meter) note(i, j int, r bool) {
	m.count++
	if m.count > m.limit {
		panic("too many less calls")
	}
	rb := uint64(0)
	if r {
		rb = 1
	}
	m.hash = (m.hash ^ uint64(i)) * 0x100000001b3
	m.hash = (m.hash ^ uint64(j)) * 0x100000001b3
	m.hash = (m.hash ^ rb) * 0x100000001b3
	if m.n <= 16 {
		fmt.Fprintf(&m.log, " %d:%d:%d", i, j, rb)
	}
	if m.n > 12 && m.count%m.every == 0 {
		d, h := stackInfo()
		if d > m.maxDepth {
			m.maxDepth = d
		}
		if h {
			m.heap = true
		}
	}
}

func runSlice(c *hx.Ctx, mode string, keys []int, nv int) (res string) {
	n := len(keys)
	if nv < n {
		n = nv
	}
	m := newMeter(n)
	var finalKeys func() []int
	var finalVals func() []int
	var call func()
	inRange := func(i, j int) {
		// the usual closure indexes the key slice: an index beyond the shorter slice is the property's
		// "no out-of-range index" clause (reflect.Swapper would panic on the shorter slice)
		if i < 0 || j < 0 || i >= n || j >= n {
			panic("index out of range of the common prefix")
		}
	}
	base, arg, _ := strings.Cut(mode, "=")
	switch base {
	case "int":
		ks := append([]int{}, keys...)
		vs := make([]string, nv)
		for i := range vs {
			vs[i] = "v" + strconv.Itoa(i)
		}
		call = func() {
			sortx.SliceBy(ks, vs, func(i, j int) bool {
				inRange(i, j)
				r := ks[i] < ks[j]
				m.note(i, j, r)
				return r
			})
		}
		finalKeys = func() []int { return ks }
		finalVals = func() []int {
			out := make([]int, nv)
			for i, s := range vs {
				out[i], _ = strconv.Atoi(s[1:])
			}
			return out
		}
	case "str":
		ks := make([]string, len(keys))
		for i, k := range keys {
			ks[i] = encStr(k)
		}
		vs := make([]rec, nv)
		for i := range vs {
			vs[i] = rec{A: int32(i), B: "x", ID: i}
		}
		call = func() {
			sortx.SliceBy(ks, vs, func(i, j int) bool {
				inRange(i, j)
				r := ks[i] < ks[j]
				m.note(i, j, r)
				return r
			})
		}
		finalKeys = func() []int {
			out := make([]int, len(ks))
			for i, s := range ks {
				out[i] = decStr(s)
			}
			return out
		}
		finalVals = func() []int {
			out := make([]int, nv)
			for i, r := range vs {
				out[i] = r.ID
			}
			return out
		}
	case "adv":
		seed, _ := strconv.ParseUint(arg, 10, 64)
		ks := append([]int{}, keys...)
		vs := make([]int, nv)
		for i := range vs {
			vs[i] = i
		}
		call = func() {
			sortx.SliceBy(ks, vs, func(i, j int) bool {
				inRange(i, j)
				r := mix(seed, uint64(i), uint64(j))
				m.note(i, j, r)
				return r
			})
		}
		finalKeys = func() []int { return ks }
		finalVals = func() []int { return vs }
	case "advk":
		seed, _ := strconv.ParseUint(arg, 10, 64)
		ks := append([]int{}, keys...)
		vs := make([]int64, nv)
		for i := range vs {
			vs[i] = int64(i)
		}
		call = func() {
			sortx.SliceBy(ks, vs, func(i, j int) bool {
				inRange(i, j)
				r := mix(seed, uint64(ks[i]), uint64(ks[j]))
				m.note(i, j, r)
				return r
			})
		}
		finalKeys = func() []int { return ks }
		finalVals = func() []int {
			out := make([]int, nv)
			for i, v := range vs {
				out[i] = int(v)
			}
			return out
		}
	default:
		return "bad-op"
	}
	defer func() {
		if r := recover(); r != nil {
			msg := fmt.Sprint(r)
			if strings.Contains(msg, "too many less calls") {
				res = "toomany " + strconv.Itoa(m.count)
			} else {
				res = "panic"
			}
		}
	}()
	call()
	if m.heap {
		c.Count("heapsort_reached")
	}
	if n > 12 {
		c.Count("quicksort_path")
	} else if n > 1 {
		c.Count("insertion_only")
	}
	hs := 0
	if m.heap {
		hs = 1
	}
	logPart := ""
	if n <= 16 {
		logPart = " log" + m.log.String()
	}
	return fmt.Sprintf("k %s v %s n %d h %016x%s ; d %d hs %d", showInts(finalKeys()), showInts(finalVals()), m.count, m.hash, logPart, m.maxDepth, hs)
}

func runUnique(kind string, elems []int) string {
	switch kind {
	case "int":
		a := append([]int{}, elems...)
		r := sortx.UniqueInt(a)
		return "r " + showInts(r) + " b " + showInts(a)
	case "str":
		a := make([]string, len(elems))
		for i, e := range elems {
			a[i] = "s" + strconv.Itoa(e)
		}
		r := sortx.UniqueString(a)
		dec := func(x []string) []int {
			out := make([]int, len(x))
			for i, s := range x {
				out[i], _ = strconv.Atoi(s[1:])
			}
			return out
		}
		return "r " + showInts(dec(r)) + " b " + showInts(dec(a))
	}
	return "bad-op"
}

func exec(c *hx.Ctx, line string) (res string) {
	defer func() {
		if r := recover(); r != nil {
			res = "panic"
		}
	}()
	w := strings.Fields(line)
	switch {
	case len(w) == 5 && w[0] == "slice" && w[3] == "|":
		nv, err := strconv.Atoi(w[4])
		if err != nil || nv < 0 {
			return "bad-op"
		}
		return runSlice(c, w[1], parseInts(w[2]), nv)
	case len(w) == 3 && w[0] == "unique":
		return runUnique(w[1], parseInts(w[2]))
	}
	return "bad-op"
}

func main() { hx.Main(gen, exec) }
