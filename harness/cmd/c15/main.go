// C15 harness: the real sortx.SliceBy with a logging less closure, and the real UniqueInt/UniqueString.
//
//	slice <mode> <keys> | <nvals>     keys: comma separated ints ("-" = empty); values 0..nvals-1 (original index)
//	    mode int      []int keys,    values []string,            less = keys[i] < keys[j]
//	    mode str      []string keys (order preserving encoding), values []struct, less = keys[i] < keys[j]
//	    mode adv=S    []int keys,    values []int,     less(i,j) = mix(S,i,j)              (inconsistent)
//	    mode advk=S   []int keys,    values []uint16 / []int64,  less(i,j) = mix(S,keys[i],keys[j])
//	  -> k <keys> v <value ids> n <#Less> h <hash of Less log> [log i:j:r ...] ; d <max nesting of quickSort_func> hs <heapSort seen>
//	     (the part after " ; " is measured from the call stack inside less and is not part of the model comparison)
//	    mode intb     []int keys, values []int64;  strb: []string keys, values []string
//	    mode spre|ssuf|swin|smix   []string keys that are substrings of ONE shared string (prefixes / suffixes / windows /
//	                  prefixes mixed with fresh copies), values []struct
//	    mode f64 f32 ff    float keys given as float TOKENS (see f64Bits), less = keys[i] < keys[j] on the floats; vf64 vf32: float values
//	multi <kcap> <vcap> | <mode> <keys> <nv> | ...   several SliceBy calls on the SAME backing arrays (see runMulti)
//	multi <kcap> <vcap> et=<K>/<V> | <mode> <keys> <nv> | ...   the same with key / value ELEMENT TYPES K, V (big.go): multi-word
//	    elements (24-byte struct, [3]int32, struct{string;int}) whose fields all carry the key / the original index, so that
//	    a torn element is visible; modes int|intb (less = key(i) < key(j)); the driver ignores the head of a multi line, the
//	    model predicts keys / value permutation / Less log as for any other element type
//	  -> ... ; d <..> hs <..> [torn k=<#torn keys>@<first positions> v=<#torn values>@<first positions>]
//	unique <int|str|pre|suf|win|mix> <elems>     (pre.. = UniqueString on substrings of one shared string)
//	  -> r <returned slice> b <backing array after the call>
package main

import (
	"fmt"
	"math"
	"math/bits"
	"runtime"
	"strconv"
	"strings"
	"sync"

	"github.com/lixianmin/got/sortx"
	"verif/harness/hx"
)

func parseInts(s string) []int {
	if s == "-" {
		return []int{}
	}
	parts := strings.Split(s, ",")
	out := make([]int, len(parts))
	for i, p := range parts {
		v, err := strconv.Atoi(p)
		if err != nil {
			panic("bad int " + p)
		}
		out[i] = v
	}
	return out
}

func showInts(a []int) string {
	if len(a) == 0 {
		return "-"
	}
	var sb strings.Builder
	for i, v := range a {
		if i > 0 {
			sb.WriteByte(',')
		}
		sb.WriteString(strconv.Itoa(v))
	}
	return sb.String()
}

func mix(seed, x, y uint64) bool {
	z := seed ^ (x * 0x9E3779B97F4A7C15) ^ (y * 0xC2B2AE3D27D4EB4F)
	z ^= z >> 29
	z *= 0xBF58476D1CE4E5B9
	z ^= z >> 32
	return z&1 == 1
}

const strOff = 500000000000

func encStr(k int) string { return fmt.Sprintf("%013d", k+strOff) }
func decStr(s string) int {
	v, _ := strconv.Atoi(strings.TrimLeft(s, "0"))
	if strings.Trim(s, "0") == "" {
		v = 0
	}
	return v - strOff
}

type rec struct {
	A  int32
	B  string
	ID int
}

// stack inspection from inside less: nesting depth of quickSort_func and presence of heapSort_func.
// Frames are classified per return PC (inlined frames expanded by CallersFrames) and cached.
type pcKind struct {
	qs   int
	heap bool
}

var pcCache = map[uintptr]pcKind{}

func classify(pc uintptr) pcKind {
	if k, ok := pcCache[pc]; ok {
		return k
	}
	var k pcKind
	frames := runtime.CallersFrames([]uintptr{pc})
	for {
		f, more := frames.Next()
		if strings.HasSuffix(f.Function, "sortx.quickSort_func") {
			k.qs++
		} else if strings.HasSuffix(f.Function, "sortx.heapSort_func") {
			k.heap = true
		}
		if !more {
			break
		}
	}
	pcCache[pc] = k
	return k
}

func stackInfo() (depth int, heap bool) {
	var pcs [512]uintptr
	n := runtime.Callers(2, pcs[:])
	for _, pc := range pcs[:n] {
		k := classify(pc)
		depth += k.qs
		heap = heap || k.heap
	}
	return
}

// backing arrays reused by the steps of one `multi` line (nil = fresh slices for every call)
type backing struct {
	ints []int
	strs []string
	vstr []string
	vrec []rec
	vi64 []int64
	// et= lines: arrays of the tagged element types, allocated on first use (big.go)
	typed      map[string]any
	kcap, vcap int
}

func newBacking(kcap, vcap int) *backing {
	return &backing{ints: make([]int, kcap), strs: make([]string, kcap), vstr: make([]string, vcap),
		vrec: make([]rec, vcap), vi64: make([]int64, vcap)}
}

func (b *backing) intKeys(keys []int) []int {
	if b == nil {
		return append([]int{}, keys...)
	}
	ks := b.ints[:len(keys)]
	copy(ks, keys)
	return ks
}

func (b *backing) strKeys(keys []int, kind string) []string {
	var ks []string
	if b == nil {
		ks = make([]string, len(keys))
	} else {
		ks = b.strs[:len(keys)]
	}
	for i, k := range keys {
		ks[i] = encShared(kind, k, i)
	}
	return ks
}

func (b *backing) valStr(nv int) []string {
	var vs []string
	if b == nil {
		vs = make([]string, nv)
	} else {
		vs = b.vstr[:nv]
	}
	for i := range vs {
		vs[i] = "v" + strconv.Itoa(i)
	}
	return vs
}

func (b *backing) valRec(nv int) []rec {
	var vs []rec
	if b == nil {
		vs = make([]rec, nv)
	} else {
		vs = b.vrec[:nv]
	}
	for i := range vs {
		vs[i] = rec{A: int32(i), B: "x", ID: i}
	}
	return vs
}

func (b *backing) valI64(nv int) []int64 {
	var vs []int64
	if b == nil {
		vs = make([]int64, nv)
	} else {
		vs = b.vi64[:nv]
	}
	for i := range vs {
		vs[i] = int64(i)
	}
	return vs
}

// strings that share memory: all encodings are injective and order preserving on their domain
//
//	enc  independent strings (zero padded decimal)                       any e
//	pre  prefixes sharedA[:e+1] of one string: EQUAL data pointer, different lengths     0 <= e < 4096
//	suf  suffixes sharedDesc[93-e:]: same end, different start                           0 <= e <= 93
//	win  overlapping windows sharedAsc[e:e+10]                                            0 <= e <= 93
//	mix  like pre, but every odd position gets a fresh copy (equal contents at different addresses)
var sharedA = strings.Repeat("a", 4096)
var sharedAsc, sharedDesc = func() (string, string) {
	a := make([]byte, 94)
	d := make([]byte, 94)
	for i := range a {
		a[i] = byte(33 + i)
		d[i] = byte(126 - i)
	}
	return string(a) + "~~~~~~~~~~", string(d)
}()

func encShared(kind string, e, pos int) string {
	switch kind {
	case "pre":
		return sharedA[:e+1]
	case "mix":
		if pos%2 == 1 {
			return strings.Clone(sharedA[:e+1])
		}
		return sharedA[:e+1]
	case "suf":
		return sharedDesc[93-e:]
	case "win":
		return sharedAsc[e : e+10]
	}
	return encStr(e)
}

func decShared(kind string, s string) int {
	switch kind {
	case "pre", "mix":
		return len(s) - 1
	case "suf", "win":
		return int(s[0]) - 33
	}
	return decStr(s)
}

func sortCall[KT any, VT any](m *meter, inRange func(i, j int), ks []KT, vs []VT, lt func(a, b KT) bool) func() {
	return func() {
		sortx.SliceBy(ks, vs, func(i, j int) bool {
			inRange(i, j)
			r := lt(ks[i], ks[j])
			m.note(i, j, r)
			return r
		})
	}
}

// multi <kcap> <vcap> | <mode> <keys> <nv> | <mode> <keys> <nv> | ...
// every step re-slices the SAME backing arrays (keys and values) to the step's lengths, overwrites the contents and
// calls SliceBy; the steps' observations are joined by " | " (the model treats every step as an independent call)
func runMulti(c *hx.Ctx, line string) string {
	parts := strings.Split(line, " | ")
	h := strings.Fields(parts[0])
	et := ""
	if len(h) == 4 && strings.HasPrefix(h[3], "et=") {
		et = h[3][3:]
	} else if len(h) != 3 {
		return "bad-op"
	}
	kcap, _ := strconv.Atoi(h[1])
	vcap, _ := strconv.Atoi(h[2])
	var bk *backing
	if et == "" {
		bk = newBacking(kcap, vcap)
	} else {
		bk = &backing{typed: map[string]any{}, kcap: kcap, vcap: vcap} // typed arrays are allocated on first use
	}
	var out []string
	for _, st := range parts[1:] {
		w := strings.Fields(st)
		if len(w) != 3 {
			return "bad-op"
		}
		keys := parseInts(w[1])
		nv, _ := strconv.Atoi(w[2])
		if len(keys) > kcap || nv > vcap || nv < 0 {
			return "bad-op"
		}
		out = append(out, runSlice(c, w[0], et, keys, nv, bk))
	}
	if et != "" {
		c.Count("multi_typed_steps_" + strconv.Itoa(len(out)))
		return strings.Join(out, " | ")
	}
	c.Count("multi_steps_" + strconv.Itoa(len(out)))
	return strings.Join(out, " | ")
}

// float tokens: a script int t stands for one float BIT PATTERN (elements are rendered and compared bitwise, so
// -0 and +0, and two NaNs with different payloads, are different tokens although == / < cannot tell them apart)
//
//	0 -Inf  1 -1  2 -denormal  3 -0  4 +0  5 +denormal  6 +1  7 +Inf  8 NaN(payload 1)  9 NaN(payload 2)  t>=10: float(t)
//
// rank (order under <): -Inf < -1 < -denormal < -0 = +0 < +denormal < 1 < 10 < 11 < … < +Inf ; NaN incomparable with all
var f64Bits = []uint64{0xfff0000000000000, 0xbff0000000000000, 0x8000000000000001, 0x8000000000000000, 0,
	1, 0x3ff0000000000000, 0x7ff0000000000000, 0x7ff8000000000001, 0x7ff8000000000002}
var f32Bits = []uint32{0xff800000, 0xbf800000, 0x80000001, 0x80000000, 0, 1, 0x3f800000, 0x7f800000, 0x7fc00001, 0x7fc00002}

func tokF64(t int) float64 {
	if t < 0 {
		panic("bad float token")
	}
	if t < len(f64Bits) {
		return math.Float64frombits(f64Bits[t])
	}
	return float64(t)
}

func f64Tok(v float64) int {
	b := math.Float64bits(v)
	for t, x := range f64Bits {
		if x == b {
			return t
		}
	}
	if t := int(v); t >= len(f64Bits) && math.Float64bits(float64(t)) == b {
		return t
	}
	return -1 // a bit pattern that was never put in
}

func tokF32(t int) float32 {
	if t < 0 || t >= 1<<24 {
		panic("bad float token")
	}
	if t < len(f32Bits) {
		return math.Float32frombits(f32Bits[t])
	}
	return float32(t)
}

func f32Tok(v float32) int {
	b := math.Float32bits(v)
	for t, x := range f32Bits {
		if x == b {
			return t
		}
	}
	if t := int(v); t >= len(f32Bits) && math.Float32bits(float32(t)) == b {
		return t
	}
	return -1
}

func mapInts[T any](xs []int, f func(int) T) []T {
	out := make([]T, len(xs))
	for i, x := range xs {
		out[i] = f(x)
	}
	return out
}

func unmapInts[T any](xs []T, f func(T) int) []int {
	out := make([]int, len(xs))
	for i, x := range xs {
		out[i] = f(x)
	}
	return out
}

func iota_(n int) []int {
	out := make([]int, n)
	for i := range out {
		out[i] = i
	}
	return out
}

type meter struct {
	mu       sync.Mutex // less may be called from several goroutines: the bookkeeping (and pcCache) is serialised
	n        int        // min(len keys, len values)
	count    int
	limit    int
	hash     uint64
	log      strings.Builder
	maxDepth int
	heap     bool
	every    int
}

func newMeter(n int) *meter {
	lg := bits.Len(uint(n))
	m := &meter{n: n, hash: 0xcbf29ce484222325, limit: 64*n*(lg+2) + 1000, every: 1}
	// unwinding the stack costs a few microseconds: sample (prime strides; a heapSort_func call on a
	// range of more than 12 elements makes dozens of consecutive Less calls)
	switch {
	case n <= 24:
		m.every = 1
	case n <= 100:
		m.every = 5
	case n <= 6000:
		m.every = 23
	default:
		m.every = 211
	}
	return m
}

func (m *meter) note(i, j int, r bool) {
	m.mu.Lock()
	defer m.mu.Unlock()
	m.count++
	if m.count > m.limit {
		panic("too many less calls")
	}
	rb := uint64(0)
	if r {
		rb = 1
	}
	m.hash = (m.hash ^ uint64(i)) * 0x100000001b3
	m.hash = (m.hash ^ uint64(j)) * 0x100000001b3
	m.hash = (m.hash ^ rb) * 0x100000001b3
	if m.n <= 16 {
		fmt.Fprintf(&m.log, " %d:%d:%d", i, j, rb)
	}
	if m.n > 12 && m.count%m.every == 0 {
		d, h := stackInfo()
		if d > m.maxDepth {
			m.maxDepth = d
		}
		if h {
			m.heap = true
		}
	}
}

func runSlice(c *hx.Ctx, mode string, et string, keys []int, nv int, bk *backing) (res string) {
	n := len(keys)
	if nv < n {
		n = nv
	}
	m := newMeter(n)
	var finalKeys func() []int
	var finalVals func() []int
	var call func()
	inRange := func(i, j int) {
		// the usual closure indexes the key slice: an index beyond the shorter slice is the property's
		// "no out-of-range index" clause (reflect.Swapper would panic on the shorter slice)
		if i < 0 || j < 0 || i >= n || j >= n {
			panic("index out of range of the common prefix")
		}
	}
	base, arg, _ := strings.Cut(mode, "=")
	torn := func() string { return "" }
	if et != "" {
		if base != "int" && base != "intb" {
			return "bad-op"
		}
		base = "typed"
	}
	switch base {
	case "typed":
		var ok bool
		call, finalKeys, finalVals, torn, ok = typedCall(et, m, inRange, keys, nv, bk)
		if !ok {
			return "bad-op"
		}
		c.Count("elemtypes_" + et)
		if n >= 1<<16 {
			c.Count("big_n_ge_65536")
		}
	case "int", "intb":
		ks := bk.intKeys(keys)
		finalKeys = func() []int { return ks }
		if base == "int" {
			vs := bk.valStr(nv)
			call = sortCall(m, inRange, ks, vs, func(a, b int) bool { return a < b })
			finalVals = func() []int {
				out := make([]int, nv)
				for i, s := range vs {
					out[i], _ = strconv.Atoi(s[1:])
				}
				return out
			}
		} else {
			vs := bk.valI64(nv)
			call = sortCall(m, inRange, ks, vs, func(a, b int) bool { return a < b })
			finalVals = func() []int {
				out := make([]int, nv)
				for i, v := range vs {
					out[i] = int(v)
				}
				return out
			}
		}
	case "str", "strb", "spre", "ssuf", "swin", "smix":
		kind := map[string]string{"str": "enc", "strb": "enc", "spre": "pre", "ssuf": "suf", "swin": "win", "smix": "mix"}[base]
		ks := bk.strKeys(keys, kind)
		finalKeys = func() []int {
			out := make([]int, len(ks))
			for i, s := range ks {
				out[i] = decShared(kind, s)
			}
			return out
		}
		if base == "strb" {
			vs := bk.valStr(nv)
			call = sortCall(m, inRange, ks, vs, func(a, b string) bool { return a < b })
			finalVals = func() []int {
				out := make([]int, nv)
				for i, s := range vs {
					out[i], _ = strconv.Atoi(s[1:])
				}
				return out
			}
		} else {
			vs := bk.valRec(nv)
			call = sortCall(m, inRange, ks, vs, func(a, b string) bool { return a < b })
			finalVals = func() []int {
				out := make([]int, nv)
				for i, r := range vs {
					out[i] = r.ID
				}
				return out
			}
		}
	case "f64": // []float64 keys, []string values
		ks := mapInts(keys, tokF64)
		vs := bk.valStr(nv)
		call = sortCall(m, inRange, ks, vs, func(a, b float64) bool { return a < b })
		finalKeys = func() []int { return unmapInts(ks, f64Tok) }
		finalVals = func() []int {
			return unmapInts(vs, func(s string) int { v, _ := strconv.Atoi(s[1:]); return v })
		}
	case "f32": // []float32 keys, []struct values
		ks := mapInts(keys, tokF32)
		vs := bk.valRec(nv)
		call = sortCall(m, inRange, ks, vs, func(a, b float32) bool { return a < b })
		finalKeys = func() []int { return unmapInts(ks, f32Tok) }
		finalVals = func() []int { return unmapInts(vs, func(r rec) int { return r.ID }) }
	case "ff": // []float64 keys, []float32 values
		ks := mapInts(keys, tokF64)
		vs := mapInts(iota_(nv), tokF32)
		call = sortCall(m, inRange, ks, vs, func(a, b float64) bool { return a < b })
		finalKeys = func() []int { return unmapInts(ks, f64Tok) }
		finalVals = func() []int { return unmapInts(vs, f32Tok) }
	case "vf64": // []int keys, []float64 values (value id = float token: ids 3 and 4 are -0 and +0, 8 and 9 NaNs)
		ks := bk.intKeys(keys)
		vs := mapInts(iota_(nv), tokF64)
		call = sortCall(m, inRange, ks, vs, func(a, b int) bool { return a < b })
		finalKeys = func() []int { return ks }
		finalVals = func() []int { return unmapInts(vs, f64Tok) }
	case "vf32": // []string keys, []float32 values
		ks := bk.strKeys(keys, "enc")
		vs := mapInts(iota_(nv), tokF32)
		call = sortCall(m, inRange, ks, vs, func(a, b string) bool { return a < b })
		finalKeys = func() []int { return unmapInts(ks, func(s string) int { return decShared("enc", s) }) }
		finalVals = func() []int { return unmapInts(vs, f32Tok) }
	case "adv":
		seed, _ := strconv.ParseUint(arg, 10, 64)
		ks := append([]int{}, keys...)
		vs := make([]int, nv)
		for i := range vs {
			vs[i] = i
		}
		call = func() {
			sortx.SliceBy(ks, vs, func(i, j int) bool {
				inRange(i, j)
				r := mix(seed, uint64(i), uint64(j))
				m.note(i, j, r)
				return r
			})
		}
		finalKeys = func() []int { return ks }
		finalVals = func() []int { return vs }
	case "advk":
		seed, _ := strconv.ParseUint(arg, 10, 64)
		ks := append([]int{}, keys...)
		vs := make([]int64, nv)
		for i := range vs {
			vs[i] = int64(i)
		}
		call = func() {
			sortx.SliceBy(ks, vs, func(i, j int) bool {
				inRange(i, j)
				r := mix(seed, uint64(ks[i]), uint64(ks[j]))
				m.note(i, j, r)
				return r
			})
		}
		finalKeys = func() []int { return ks }
		finalVals = func() []int {
			out := make([]int, nv)
			for i, v := range vs {
				out[i] = int(v)
			}
			return out
		}
	default:
		return "bad-op"
	}
	defer func() {
		if r := recover(); r != nil {
			msg := fmt.Sprint(r)
			if strings.Contains(msg, "too many less calls") {
				res = "toomany " + strconv.Itoa(m.count)
			} else {
				res = "panic"
			}
		}
	}()
	call()
	if m.heap {
		c.Count("heapsort_reached")
	}
	if n > 12 {
		c.Count("quicksort_path")
	} else if n > 1 {
		c.Count("insertion_only")
	}
	hs := 0
	if m.heap {
		hs = 1
	}
	logPart := ""
	if n <= 16 {
		logPart = " log" + m.log.String()
	}
	fk, fv := finalKeys(), finalVals()
	return fmt.Sprintf("k %s v %s n %d h %016x%s ; d %d hs %d%s", showInts(fk), showInts(fv), m.count, m.hash, logPart, m.maxDepth, hs, torn())
}

func runUnique(kind string, elems []int) string {
	switch kind {
	case "int":
		a := append([]int{}, elems...)
		r := sortx.UniqueInt(a)
		return "r " + showInts(r) + " b " + showInts(a)
	case "str":
		a := make([]string, len(elems))
		for i, e := range elems {
			a[i] = "s" + strconv.Itoa(e)
		}
		r := sortx.UniqueString(a)
		dec := func(x []string) []int {
			out := make([]int, len(x))
			for i, s := range x {
				out[i], _ = strconv.Atoi(s[1:])
			}
			return out
		}
		return "r " + showInts(dec(r)) + " b " + showInts(dec(a))
	case "pre", "suf", "win", "mix":
		// UniqueString on strings that are substrings of ONE shared string
		a := make([]string, len(elems))
		for i, e := range elems {
			a[i] = encShared(kind, e, i)
		}
		r := sortx.UniqueString(a)
		dec := func(x []string) []int {
			out := make([]int, len(x))
			for i, s := range x {
				out[i] = decShared(kind, s)
			}
			return out
		}
		return "r " + showInts(dec(r)) + " b " + showInts(dec(a))
	}
	return "bad-op"
}

func exec(c *hx.Ctx, line string) (res string) {
	defer func() {
		if r := recover(); r != nil {
			res = "panic"
		}
	}()
	w := strings.Fields(line)
	switch {
	case len(w) == 5 && w[0] == "slice" && w[3] == "|":
		nv, err := strconv.Atoi(w[4])
		if err != nil || nv < 0 {
			return "bad-op"
		}
		return runSlice(c, w[1], "", parseInts(w[2]), nv, nil)
	case len(w) > 3 && w[0] == "multi":
		return runMulti(c, line)
	case len(w) == 3 && w[0] == "unique":
		return runUnique(w[1], parseInts(w[2]))
	}
	return "bad-op"
}

func main() {
	// SliceBy is free to use several goroutines: give it real parallelism even on a small machine
	if runtime.GOMAXPROCS(0) < 4 {
		runtime.GOMAXPROCS(4)
	}
	hx.Main(gen, exec)
}
