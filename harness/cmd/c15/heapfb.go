package main

import "verif/harness/hx"

// Heap-fallback inputs with a designed range content.
//
// heapSort_func only runs when the depth budget of quickSort_func is exhausted on a range of more than 12
// elements, and what it then finds in that range is whatever the partition steps left there.  To control it the
// generator plays McIlroy's lazy adversary ("gas" = value not fixed yet) against a REFERENCE copy of the
// introsort driver below (the algorithm of Go's pre-1.19 sort package, which sortx/zfuncversion.go is copied
// from) and stops at the first heapSort entry (a, b).  The elements of [a,b) that are still gas have never been
// ordered among themselves and are larger than everything fixed so far, so ANY assignment of distinct larger
// values to them is consistent with every answer given before: the real code, run on the resulting plain []int,
// repeats the same partition steps and enters heapSort_func on a range holding exactly the designed shape
// (maximum at the last / first / middle position, minimum last, ascending, descending, random; even and odd lengths).
// If the code under test deviates from the reference before that point the input is still a valid sort case.

type heapEntry struct{ a, b int }

type refIntro struct {
	less func(i, j int) bool
	swap func(i, j int)
}

func (r *refIntro) insertionSort(a, b int) {
	for i := a + 1; i < b; i++ {
		for j := i; j > a && r.less(j, j-1); j-- {
			r.swap(j, j-1)
		}
	}
}

func (r *refIntro) medianOfThree(m1, m0, m2 int) {
	if r.less(m1, m0) {
		r.swap(m1, m0)
	}
	if r.less(m2, m1) {
		r.swap(m2, m1)
		if r.less(m1, m0) {
			r.swap(m1, m0)
		}
	}
}

func (r *refIntro) doPivot(lo, hi int) (midlo, midhi int) {
	m := int(uint(lo+hi) >> 1)
	if hi-lo > 40 {
		s := (hi - lo) / 8
		r.medianOfThree(lo, lo+s, lo+2*s)
		r.medianOfThree(m, m-s, m+s)
		r.medianOfThree(hi-1, hi-1-s, hi-1-2*s)
	}
	r.medianOfThree(lo, m, hi-1)
	pivot := lo
	a, c := lo+1, hi-1
	for ; a < c && r.less(a, pivot); a++ {
	}
	b := a
	for {
		for ; b < c && !r.less(pivot, b); b++ {
		}
		for ; b < c && r.less(pivot, c-1); c-- {
		}
		if b >= c {
			break
		}
		r.swap(b, c-1)
		b++
		c--
	}
	protect := hi-c < 5
	if !protect && hi-c < (hi-lo)/4 {
		dups := 0
		if !r.less(pivot, hi-1) {
			r.swap(c, hi-1)
			c++
			dups++
		}
		if !r.less(b-1, pivot) {
			b--
			dups++
		}
		if !r.less(m, pivot) {
			r.swap(m, b-1)
			b--
			dups++
		}
		protect = dups > 1
	}
	if protect {
		for {
			for ; a < b && !r.less(b-1, pivot); b-- {
			}
			for ; a < b && r.less(a, pivot); a++ {
			}
			if a >= b {
				break
			}
			r.swap(a, b-1)
			a++
			b--
		}
	}
	r.swap(pivot, b-1)
	return b - 1, c
}

func (r *refIntro) quickSort(a, b, maxDepth int) {
	for b-a > 12 {
		if maxDepth == 0 {
			panic(heapEntry{a, b}) // stop at the first heapSort entry
		}
		maxDepth--
		mlo, mhi := r.doPivot(a, b)
		if mlo-a < b-mhi {
			r.quickSort(a, mlo, maxDepth)
			a = mhi
		} else {
			r.quickSort(mhi, b, maxDepth)
			b = mlo
		}
	}
	if b-a > 1 {
		for i := a + 6; i < b; i++ {
			if r.less(i, i-6) {
				r.swap(i, i-6)
			}
		}
		r.insertionSort(a, b)
	}
}

// heapFallbackBase plays the adversary for n elements up to the first heapSort entry.  It returns the values fixed so
// far (gas = n-1 for the open ones), the element ids of the entered range in position order, and ok = false when
// the fallback is not reached.
func heapFallbackBase(n int) (val []int, gas int, rangeIDs []int, ok bool) {
	val = make([]int, n)
	gas = n - 1
	for i := range val {
		val[i] = gas
	}
	ptr := make([]int, n)
	for i := range ptr {
		ptr[i] = i
	}
	nsolid, candidate := 0, 0
	r := &refIntro{
		less: func(i, j int) bool {
			x, y := ptr[i], ptr[j]
			if val[x] == gas && val[y] == gas {
				if x == candidate {
					val[x] = nsolid
				} else {
					val[y] = nsolid
				}
				nsolid++
			}
			if val[x] == gas {
				candidate = x
			} else if val[y] == gas {
				candidate = y
			}
			return val[x] < val[y]
		},
		swap: func(i, j int) { ptr[i], ptr[j] = ptr[j], ptr[i] },
	}
	depth := 0
	for i := n; i > 0; i >>= 1 {
		depth++
	}
	func() {
		defer func() {
			if e, isEntry := recover().(heapEntry); isEntry {
				rangeIDs = append([]int(nil), ptr[e.a:e.b]...)
				ok = true
			}
		}()
		r.quickSort(0, n, depth*2)
	}()
	return val, gas, rangeIDs, ok
}

var heapShapes = []string{"lastmax", "firstmax", "midmax", "lastmin", "firstmin", "asc", "desc", "lastmax-rand", "rand"}

// heapFallbackInput fixes the open (gas) elements of the entered range according to `shape`; everything else open
// gets larger values still.  All values stay distinct, so the order is a strict total order.
func heapFallbackInput(c *hx.Ctx, n int, shape string) (keys []int, rangeLen int, ok bool) {
	val, gas, ids, ok := heapFallbackBase(n)
	if !ok {
		return nil, 0, false
	}
	var open []int // element ids of the range that are still gas, in position order
	for _, id := range ids {
		if val[id] == gas {
			open = append(open, id)
		}
	}
	m := len(open)
	if m < 2 {
		return nil, 0, false
	}
	rank := make([]int, m) // rank[k] = relative value of the k-th open element
	perm := func() {
		for k := range rank {
			rank[k] = k
		}
		for k := m - 1; k > 0; k-- {
			j := c.Rng.Intn(k + 1)
			rank[k], rank[j] = rank[j], rank[k]
		}
	}
	place := func(pos, want int) { // give position pos the rank want (swap with its current holder)
		for k := range rank {
			if rank[k] == want {
				rank[k], rank[pos] = rank[pos], rank[k]
				return
			}
		}
	}
	switch shape {
	case "asc":
		for k := range rank {
			rank[k] = k
		}
	case "desc":
		for k := range rank {
			rank[k] = m - 1 - k
		}
	case "lastmax":
		for k := range rank {
			rank[k] = k
		}
		// ascending with the two halves exchanged below the maximum: not already a heap, maximum stays last
		h := (m - 1) / 2
		for k := 0; k < m-1; k++ {
			rank[k] = (k + h) % (m - 1)
		}
		rank[m-1] = m - 1
	case "lastmax-rand":
		perm()
		place(m-1, m-1)
	case "firstmax":
		perm()
		place(0, m-1)
	case "midmax":
		perm()
		place(m/2, m-1)
	case "lastmin":
		perm()
		place(m-1, 0)
	case "firstmin":
		perm()
		place(0, 0)
	default:
		perm()
	}
	base := gas // larger than every fixed value (fixed values are 0 .. nsolid-1 < n-1)
	for k, id := range open {
		val[id] = base + rank[k]
	}
	extra := base + m
	for id := range val {
		if val[id] == gas && !contains(open, id) {
			val[id] = extra
			extra++
		}
	}
	return val, len(ids), true
}

func contains(l []int, x int) bool {
	for _, y := range l {
		if y == x {
			return true
		}
	}
	return false
}

// genHeapFallback: ranges of every length 13..64 (both parities) entered by heapSort_func with a designed content
func genHeapFallback(c *hx.Ctx) {
	seen := map[int]int{}
	for n := 20; n <= 400 && len(seen) < 52; n++ {
		_, _, ids, ok := heapFallbackBase(n)
		if !ok || len(ids) < 13 || len(ids) > 64 || seen[len(ids)] >= c.Budget(1, 3) {
			continue
		}
		seen[len(ids)]++
		for _, shape := range heapShapes {
			keys, _, ok := heapFallbackInput(c, n, shape)
			if !ok {
				continue
			}
			mode := "int"
			if (n+len(shape))%5 == 0 {
				mode = "str"
			}
			emitSlice(c, mode, keys, n)
			c.Count("heap_fallback_" + shape)
			if len(ids)%2 == 0 {
				c.Count("heap_fallback_even_range")
			} else {
				c.Count("heap_fallback_odd_range")
			}
		}
	}
}
