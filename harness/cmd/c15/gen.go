package main

import (
	"sort"
	"strconv"

	"github.com/lixianmin/got/sortx"
	"verif/harness/hx"
)

// killer builds McIlroy's "killer adversary for quicksort" input against the real sortx.SliceBy:
// the adversary answers comparisons lazily so that every pivot turns out to be (nearly) minimal;
// the values it was forced to fix form an input on which the same deterministic algorithm
// degenerates again (so that the depth limit is exhausted and heapSort_func takes over).
func killer(n int) (val []int) {
	defer func() {
		// a broken sort may hand the adversary an invalid index: fall back to what was fixed so far
		_ = recover()
	}()
	val = make([]int, n)
	gas := n - 1
	for i := range val {
		val[i] = gas
	}
	ptr := make([]int, n)
	for i := range ptr {
		ptr[i] = i
	}
	dummy := make([]byte, n)
	nsolid, candidate := 0, 0
	sortx.SliceBy(ptr, dummy, func(i, j int) bool {
		x, y := ptr[i], ptr[j]
		if val[x] == gas && val[y] == gas {
			if x == candidate {
				val[x] = nsolid
			} else {
				val[y] = nsolid
			}
			nsolid++
		}
		if val[x] == gas {
			candidate = x
		} else if val[y] == gas {
			candidate = y
		}
		return val[x] < val[y]
	})
	return val
}

func pattern(c *hx.Ctx, kind string, n int) []int {
	a := make([]int, n)
	switch kind {
	case "sorted":
		for i := range a {
			a[i] = i
		}
	case "reversed":
		for i := range a {
			a[i] = n - i
		}
	case "equal":
		for i := range a {
			a[i] = 7
		}
	case "organ":
		for i := range a {
			if i < n/2 {
				a[i] = i
			} else {
				a[i] = n - i
			}
		}
	case "dups2":
		for i := range a {
			a[i] = c.Rng.Intn(2)
		}
	case "dups3":
		for i := range a {
			a[i] = c.Rng.Intn(3)
		}
	case "dups5":
		for i := range a {
			a[i] = c.Rng.Intn(5) - 2
		}
	case "dupsSqrt":
		k := 1
		for k*k < n {
			k++
		}
		for i := range a {
			a[i] = c.Rng.Intn(k + 1)
		}
	case "random":
		for i := range a {
			a[i] = c.Rng.Intn(4*n+1) - 2*n
		}
	case "sawtooth":
		for i := range a {
			a[i] = i % 7
		}
	case "sortedDups":
		for i := range a {
			a[i] = c.Rng.Intn(n/4 + 1)
		}
		sort.Ints(a)
	case "nearlySorted":
		for i := range a {
			a[i] = i
		}
		for k := 0; k < n/16+1; k++ {
			i, j := c.Rng.Intn(n), c.Rng.Intn(n)
			a[i], a[j] = a[j], a[i]
		}
	case "pushFront": // sorted with the minimum at the end
		for i := range a {
			a[i] = i + 1
		}
		if n > 0 {
			a[n-1] = 0
		}
	case "killer":
		return killer(n)
	}
	return a
}

var kinds = []string{"sorted", "reversed", "equal", "organ", "dups2", "dups3", "dups5", "dupsSqrt", "random",
	"sawtooth", "sortedDups", "nearlySorted", "pushFront", "killer"}

func emitSlice(c *hx.Ctx, mode string, keys []int, nv int) {
	c.Emit("slice %s %s | %d", mode, showInts(keys), nv)
}

func seqOver(letters, length int, f func([]int)) {
	a := make([]int, length)
	var rec func(p int)
	rec = func(p int) {
		if p == length {
			f(a)
			return
		}
		for x := 0; x < letters; x++ {
			a[p] = x
			rec(p + 1)
		}
	}
	rec(0)
}

func gen(c *hx.Ctx) {
	// 1. exhaustive small sequences (insertion-sort path), equal lengths; every 5th also with a different value length
	L := c.Budget(6, 8)
	k := 0
	for n := 0; n <= L; n++ {
		seqOver(4, n, func(a []int) {
			mode := "int"
			if k%7 == 3 {
				mode = "str"
			}
			emitSlice(c, mode, a, n)
			c.Count("exhaustive_4letters")
			if k%5 == 0 {
				nv := c.Rng.Intn(n + 3)
				emitSlice(c, mode, a, nv)
				c.Count("exhaustive_len_mismatch")
			}
			k++
		})
	}
	if c.Thorough() {
		seqOver(3, 9, func(a []int) {
			emitSlice(c, "int", a, 9)
			c.Count("exhaustive_3letters_len9")
		})
		seqOver(2, 13, func(a []int) { // shortest range that is partitioned by doPivot
			emitSlice(c, "int", a, 13)
			c.Count("exhaustive_2letters_len13")
		})
	} else {
		seqOver(2, 13, func(a []int) {
			if k%4 == 0 {
				emitSlice(c, "int", a, 13)
				c.Count("quarter_of_2letters_len13")
			}
			k++
		})
	}
	// 2. length mismatches: 0, 1, shorter, longer
	for _, nk := range []int{0, 1, 2, 3, 12, 13, 14, 20, 41, 100} {
		for _, nv := range []int{0, 1, 2, nk / 2, nk - 1, nk, nk + 1, 2*nk + 3, 13, 12} {
			if nv < 0 {
				continue
			}
			for _, kind := range []string{"random", "reversed", "dups3"} {
				mode := "int"
				if (nk+nv)%2 == 1 {
					mode = "str"
				}
				emitSlice(c, mode, pattern(c, kind, nk), nv)
				c.Count("len_mismatch_grid")
			}
		}
	}
	// 3. patterns around the thresholds and large
	sizes := []int{2, 7, 11, 12, 13, 14, 15, 16, 17, 24, 25, 39, 40, 41, 42, 43, 48, 49, 63, 64, 65, 100, 127, 128, 129, 200, 500, 1000, 2000, 5000}
	if c.Thorough() {
		sizes = append(sizes, 3000, 10000, 20000, 50000)
	}
	for _, n := range sizes {
		for ki, kind := range kinds {
			mode := "int"
			if (n+ki)%4 == 0 && n <= 5000 {
				mode = "str"
			}
			emitSlice(c, mode, pattern(c, kind, n), n)
			c.Count("pattern_" + kind)
			if n <= 1000 && kind != "killer" {
				// values shorter / longer than keys: the sorted prefix is shorter than the key slice
				emitSlice(c, mode, pattern(c, kind, n), n-n/3)
				emitSlice(c, mode, pattern(c, kind, n-n/4), n)
				c.Count("pattern_len_mismatch")
				c.Count("pattern_len_mismatch")
			}
		}
	}
	// killer inputs for many sizes (the heapSort fallback must be reached; counted by exec)
	for _, n := range []int{13, 20, 30, 41, 60, 100, 150, 300, 700, 1500, 3000} {
		emitSlice(c, "int", killer(n), n)
		c.Count("killer_sizes")
		// killer prefix with extra keys beyond the value length
		kk := append(killer(n), 5, 4, 3)
		emitSlice(c, "int", kk, n)
		c.Count("killer_sizes")
	}
	// heapSort fallback entered on ranges of every length 13..64 with a designed content (heapfb.go)
	genHeapFallback(c)
	// 4. random inputs of moderate size with few distinct keys (partition, equal-key branch, protect loop)
	R := c.Budget(4000, 150000)
	for i := 0; i < R; i++ {
		n := c.Rng.Range(13, 70)
		if c.Rng.Intn(8) == 0 {
			n = c.Rng.Range(70, 400)
		}
		letters := c.Rng.Pick([]int{1, 2, 2, 3, 3, 4, 5, 8, 16, n, 4 * n})
		a := make([]int, n)
		for j := range a {
			a[j] = c.Rng.Intn(letters)
		}
		switch c.Rng.Intn(6) {
		case 0:
			sort.Ints(a)
		case 1:
			sort.Sort(sort.Reverse(sort.IntSlice(a)))
		case 2: // sorted halves
			sort.Ints(a[:n/2])
			sort.Ints(a[n/2:])
		}
		nv := n
		switch c.Rng.Intn(6) {
		case 0:
			nv = c.Rng.Range(0, n)
		case 1:
			nv = n + c.Rng.Range(1, 5)
		}
		mode := "int"
		if c.Rng.Intn(5) == 0 {
			mode = "str"
		}
		emitSlice(c, mode, a, nv)
		c.Count("random_moderate")
	}
	// 5. inconsistent less functions (perm / prefix / index-range clauses hold for ANY less)
	A := c.Budget(2500, 100000)
	for i := 0; i < A; i++ {
		n := c.Rng.Range(0, 60)
		if c.Rng.Intn(10) == 0 {
			n = c.Rng.Range(60, 600)
		}
		a := make([]int, n)
		letters := c.Rng.Pick([]int{2, 3, 5, 50, 1000})
		for j := range a {
			a[j] = c.Rng.Intn(letters)
		}
		nv := n
		if c.Rng.Intn(4) == 0 {
			nv = c.Rng.Range(0, n+4)
		}
		seed := c.Rng.U64() >> 16
		if c.Rng.Bool() {
			c.Emit("slice adv=%d %s | %d", seed, showInts(a), nv)
			c.Count("adversarial_index_less")
		} else {
			c.Emit("slice advk=%d %s | %d", seed, showInts(a), nv)
			c.Count("adversarial_content_less")
		}
	}
	for _, n := range []int{1000, 5000} {
		a := pattern(c, "random", n)
		c.Emit("slice adv=%d %s | %d", c.Rng.U64()>>16, showInts(a), n)
		c.Emit("slice advk=%d %s | %d", c.Rng.U64()>>16, showInts(a), n)
		c.Count("adversarial_large")
		c.Count("adversarial_large")
	}
	// 5b. several SliceBy calls on the SAME backing arrays (state carried across calls, e.g. cached swappers):
	// grow within capacity, shrink, same length with other contents, other value slice / element type
	randKeys := func(n int) []int {
		letters := c.Rng.Pick([]int{2, 5, 50, 1000})
		a := make([]int, n)
		for j := range a {
			a[j] = c.Rng.Intn(letters)
		}
		if c.Rng.Intn(3) == 0 { // descending: every position is swapped, also the newly exposed tail
			sort.Sort(sort.Reverse(sort.IntSlice(a)))
		}
		return a
	}
	multiModes := [][]string{{"int"}, {"str"}, {"int", "str"}, {"int", "intb"}, {"str", "strb"}, {"int", "str", "intb", "strb"}, {"intb"}, {"strb"}}
	for _, l1 := range []int{1, 2, 3, 8, 13, 20} { // deterministic: sort a prefix, then a longer prefix of the same arrays
		for _, l2 := range []int{l1 + 1, l1 + 5, 2*l1 + 13} {
			for _, md := range []string{"int", "str", "intb", "strb"} {
				c.Emit("multi %d %d | %s %s %d | %s %s %d | %s %s %d", l2, l2, md, showInts(pattern(c, "reversed", l1)), l1,
					md, showInts(pattern(c, "reversed", l2)), l2, md, showInts(pattern(c, "random", l1)), l1)
				c.Count("multi_grow_grid")
			}
		}
	}
	for i := 0; i < c.Budget(500, 8000); i++ {
		kcap := c.Rng.Pick([]int{3, 8, 16, 20, 32, 64, 150})
		vcap := kcap
		if c.Rng.Intn(4) == 0 {
			vcap = kcap + c.Rng.Range(-2, 3)
			if vcap < 0 {
				vcap = 0
			}
		}
		modes := multiModes[c.Rng.Intn(len(multiModes))]
		nsteps := c.Rng.Range(2, 6)
		l := c.Rng.Range(0, kcap)
		var sb []string
		for st := 0; st < nsteps; st++ {
			switch c.Rng.Intn(4) {
			case 0, 1: // grow within capacity
				l = c.Rng.Range(l, kcap)
			case 2: // shrink
				l = c.Rng.Range(0, l)
			} // case 3: same length, different contents
			nv := l
			if nv > vcap || c.Rng.Intn(5) == 0 {
				nv = c.Rng.Range(0, vcap)
			}
			sb = append(sb, modes[c.Rng.Intn(len(modes))]+" "+showInts(randKeys(l))+" "+itoa(nv))
		}
		line := "multi " + itoa(kcap) + " " + itoa(vcap)
		for _, x := range sb {
			line += " | " + x
		}
		c.Emit("%s", line)
		c.Count("multi_random")
	}
	// 5c. string keys / UniqueString inputs that are substrings of ONE shared string (equal data pointers with different
	// lengths, overlapping windows, equal contents at different addresses)
	shKinds := []string{"pre", "suf", "win", "mix"}
	for i := 0; i < c.Budget(600, 10000); i++ {
		n := c.Rng.Range(0, 80)
		letters := c.Rng.Pick([]int{2, 3, 5, 20, 61})
		a := make([]int, n)
		for j := range a {
			a[j] = c.Rng.Intn(letters)
		}
		nv := n
		if c.Rng.Intn(5) == 0 {
			nv = c.Rng.Range(0, n+3)
		}
		emitSlice(c, "s"+shKinds[i%4], a, nv)
		c.Count("shared_string_keys")
	}
	for _, kind := range shKinds {
		for n := 0; n <= c.Budget(5, 7); n++ {
			seqOver(3, n, func(a []int) {
				c.Emit("unique %s %s", kind, showInts(a))
				c.Count("unique_shared_exhaustive")
			})
		}
	}
	for i := 0; i < c.Budget(800, 12000); i++ {
		n := c.Rng.Range(0, 60)
		letters := c.Rng.Pick([]int{2, 3, 4, 10, 61})
		a := make([]int, n)
		for j := range a {
			a[j] = c.Rng.Intn(letters)
		}
		if c.Rng.Intn(3) > 0 { // sorted lists of prefixes (ancestor paths) are adjacent by construction
			sort.Ints(a)
		}
		c.Emit("unique %s %s", shKinds[i%4], showInts(a))
		c.Count("unique_shared_random")
	}
	// 5d. float64 / float32 keys and values, elements given as bit-pattern tokens (3 = -0, 4 = +0, 2/5 denormals,
	// 0/7 infinities, 8/9 NaNs with different payloads, 1/6 = -1/+1): == is coarser than identity on these
	fltModes := []string{"f64", "f32", "ff", "vf64", "vf32"}
	for n := 0; n <= c.Budget(5, 6); n++ { // exhaustive over {-0, +0, 1, -1}
		seqOver(4, n, func(a []int) {
			tok := make([]int, len(a))
			for i, x := range a {
				tok[i] = []int{3, 4, 6, 1}[x]
			}
			emitSlice(c, fltModes[k%3], tok, n)
			c.Count("float_keys_exhaustive")
			// float VALUES: ids 3 and 4 are -0 and +0; int/string keys over 4 letters
			emitSlice(c, fltModes[3+k%2], a, n)
			c.Count("float_values_exhaustive")
			k++
		})
	}
	for i := 0; i < c.Budget(1200, 20000); i++ {
		n := c.Rng.Range(0, 70)
		if c.Rng.Intn(12) == 0 {
			n = c.Rng.Range(70, 400)
		}
		mode := fltModes[i%5]
		a := make([]int, n)
		if i%5 < 3 {
			alpha := [][]int{{3, 4}, {3, 4, 6}, {0, 1, 2, 3, 4, 5, 6, 7}, {2, 3, 4, 5}, {3, 4, 10, 11, 12, 13}}[c.Rng.Intn(5)]
			nan := c.Rng.Intn(6) == 0 // NaN keys: < is not a strict weak order, only the any-less clauses are judged
			for j := range a {
				a[j] = c.Rng.Pick(alpha)
				if nan && c.Rng.Intn(5) == 0 {
					a[j] = 8 + c.Rng.Intn(2)
				}
			}
			if nan {
				c.Count("float_keys_with_nan")
			} else {
				c.Count("float_keys_random")
			}
		} else {
			letters := c.Rng.Pick([]int{1, 2, 3, 5, 50})
			for j := range a {
				a[j] = c.Rng.Intn(letters)
			}
			if c.Rng.Intn(3) == 0 {
				sort.Sort(sort.Reverse(sort.IntSlice(a)))
			}
			c.Count("float_values_random")
		}
		nv := n
		if c.Rng.Intn(6) == 0 {
			nv = c.Rng.Range(0, n+3)
		}
		emitSlice(c, mode, a, nv)
	}
	// 6. Unique: exhaustive over 3 letters, random, sorted
	U := c.Budget(7, 10)
	for n := 0; n <= U; n++ {
		seqOver(3, n, func(a []int) {
			kind := "int"
			if k%3 == 0 {
				kind = "str"
			}
			k++
			c.Emit("unique %s %s", kind, showInts(a))
			c.Count("unique_exhaustive")
		})
	}
	// run-structured inputs: long runs (around 16/32/64/…: thresholds of any "skip ahead in a long run" shortcut),
	// values from a tiny alphabet so that a run's value reappears in later runs (UNSORTED), and sorted variants
	runLens := []int{1, 2, 15, 16, 17, 18, 31, 32, 33, 63, 64, 65, 100, 257}
	genRuns := func(maxLen int, sorted bool) []int {
		letters := c.Rng.Range(2, 4)
		nruns := c.Rng.Range(2, 40)
		a := make([]int, 0, 256)
		prev := -1
		for r := 0; r < nruns; r++ {
			l := c.Rng.Pick(runLens)
			if c.Rng.Intn(6) == 0 {
				l = c.Rng.Range(1, 70)
			}
			if len(a)+l > maxLen {
				break
			}
			v := prev + 1 // sorted: strictly increasing run values
			if !sorted {
				v = c.Rng.Intn(letters)
				if v == prev {
					v = (v + 1) % letters
				}
			} else if c.Rng.Intn(4) == 0 {
				v = prev + c.Rng.Range(1, 5)
			}
			for k := 0; k < l; k++ {
				a = append(a, v)
			}
			prev = v
		}
		return a
	}
	for i := 0; i < c.Budget(700, 12000); i++ {
		maxLen := c.Rng.Pick([]int{40, 80, 200, 600, 3000})
		sorted := c.Rng.Intn(4) == 0
		a := genRuns(maxLen, sorted)
		kind := "int"
		if i%2 == 1 {
			kind = "str"
		}
		if sorted {
			c.Count("unique_runs_sorted")
		} else {
			c.Count("unique_runs_unsorted")
		}
		c.Emit("unique %s %s", kind, showInts(a))
	}
	// two-run-value patterns with every pair of lengths from the table: x^p y^q x^r z^2 (value x reappears q after its long run)
	for pi, p := range runLens {
		for qi, q := range runLens {
			if !c.Thorough() && (pi+qi)%2 == 1 {
				continue
			}
			a := make([]int, 0, p+q+12)
			for k := 0; k < p; k++ {
				a = append(a, 0)
			}
			for k := 0; k < q; k++ {
				a = append(a, 1)
			}
			for k := 0; k < c.Rng.Pick([]int{1, 8, 17}); k++ {
				a = append(a, 0)
			}
			a = append(a, 2, 2, 2)
			kind := "int"
			if (pi+qi)%4 >= 2 {
				kind = "str"
			}
			c.Emit("unique %s %s", kind, showInts(a))
			c.Count("unique_runs_grid")
		}
	}
	if c.Thorough() {
		for i := 0; i < 6; i++ {
			a := make([]int, 0, 100000)
			prev := -1
			for len(a) < 100000 {
				l := c.Rng.Pick(runLens) * c.Rng.Pick([]int{1, 1, 4, 16})
				v := c.Rng.Intn(3)
				if v == prev {
					v = (v + 1) % 3
				}
				if i%3 == 2 {
					v = prev + 1
				}
				for k := 0; k < l && len(a) < 100000; k++ {
					a = append(a, v)
				}
				prev = v
			}
			kind := "int"
			if i%2 == 1 {
				kind = "str"
			}
			c.Emit("unique %s %s", kind, showInts(a))
			c.Count("unique_runs_100k")
		}
	}
	for i := 0; i < c.Budget(1500, 20000); i++ {
		n := c.Rng.Range(0, 40)
		if c.Rng.Intn(20) == 0 {
			n = c.Rng.Range(40, 2000)
		}
		letters := c.Rng.Pick([]int{1, 2, 3, 4, 10, 1000})
		a := make([]int, n)
		for j := range a {
			a[j] = c.Rng.Intn(letters) - 1
		}
		if c.Rng.Intn(3) > 0 {
			sort.Ints(a)
			c.Count("unique_sorted_input")
		} else {
			c.Count("unique_unsorted_input")
		}
		kind := "int"
		if c.Rng.Intn(3) == 0 {
			kind = "str"
		}
		c.Emit("unique %s %s", kind, showInts(a))
	}
	// 7. multi-word element types (structs, arrays) on small and BIG inputs (big.go); last, so that the random stream of
	// the generators above is what it was
	genTyped(c)
}

func itoa(i int) string { return strconv.Itoa(i) }
