package main

// Element types beyond scalars / strings, and big inputs.
//
// A line `multi <kcap> <vcap> et=<K>/<V> | <mode> <keys> <nv> | ...` runs SliceBy on a []K key slice and a []V value slice
// (re-sliced from the same backing arrays for every step). Every element carries its payload (the key / the value's
// original index) redundantly in ALL of its fields, so that an element whose fields do not agree with ONE original
// element ("torn": half of one element, half of another) is recognised when the result is decoded; the observation
// lists torn elements after the " ; " (not part of the model comparison) and renders them as -1 (values) in the lists.
//
//	K, V ∈  int   int                                 8 bytes
//	        i64   int64                               8 bytes
//	        s24   struct{A, B, C int64}               24 bytes, no pointers
//	        a12   [3]int32                            12 bytes, no pointers   (payload must fit an int32)
//	        sn    struct{S string; N int}             24 bytes, with a pointer
//	        s40   struct{P *int; A [4]int64}          40 bytes, pointer first

import (
	"fmt"
	"sort"
	"strconv"
	"strings"

	"github.com/lixianmin/got/sortx"
	"verif/harness/hx"
)

type s24 struct{ A, B, C int64 }
type a12 [3]int32
type sn struct {
	S string
	N int
}
type s40 struct {
	P *int
	A [4]int64
}

// codec: enc builds the element for payload x; key reads the payload cheaply (first field; what less compares);
// dec returns the payload and whether all fields agree with enc(payload)
type codec[T any] struct {
	enc func(x int) T
	key func(e T) int
	dec func(e T) (int, bool)
}

var cInt = codec[int]{
	enc: func(x int) int { return x },
	key: func(e int) int { return e },
	dec: func(e int) (int, bool) { return e, true },
}

var cI64 = codec[int64]{
	enc: func(x int) int64 { return int64(x) },
	key: func(e int64) int { return int(e) },
	dec: func(e int64) (int, bool) { return int(e), true },
}

var cS24 = codec[s24]{
	enc: func(x int) s24 { v := int64(x); return s24{v, v*3 + 1, ^v} },
	key: func(e s24) int { return int(e.A) },
	dec: func(e s24) (int, bool) { return int(e.A), e.B == e.A*3+1 && e.C == ^e.A },
}

var cA12 = codec[a12]{
	enc: func(x int) a12 { v := int32(x); return a12{v, v ^ 0x5a5a5a5, -v} },
	key: func(e a12) int { return int(e[0]) },
	dec: func(e a12) (int, bool) { return int(e[0]), e[1] == e[0]^0x5a5a5a5 && e[2] == -e[0] },
}

var cSN = codec[sn]{
	enc: func(x int) sn { return sn{S: "e" + strconv.Itoa(x), N: x} },
	key: func(e sn) int { return e.N },
	dec: func(e sn) (int, bool) { return e.N, e.S == "e"+strconv.Itoa(e.N) },
}

var cS40 = codec[s40]{
	enc: func(x int) s40 { v := int64(x); p := x; return s40{P: &p, A: [4]int64{v, v + 1, v * 7, ^v}} },
	key: func(e s40) int { return int(e.A[0]) },
	dec: func(e s40) (int, bool) {
		v := e.A[0]
		return int(v), e.P != nil && int64(*e.P) == v && e.A[1] == v+1 && e.A[2] == v*7 && e.A[3] == ^v
	},
}

func typedBacking[T any](bk *backing, name string, capacity, length int) []T {
	if bk == nil || bk.typed == nil {
		return make([]T, length)
	}
	if a, ok := bk.typed[name].([]T); ok {
		return a[:length]
	}
	a := make([]T, capacity)
	bk.typed[name] = a
	return a[:length]
}

type typedRes struct {
	call                 func()
	finalKeys, finalVals func() []int
	torn                 func() string
}

func showPos(p []int) string {
	if len(p) > 5 {
		p = p[:5]
	}
	return strings.ReplaceAll(showInts(p), "-", "")
}

func typedKV[K any, V any](kc codec[K], vc codec[V], et string, m *meter, inRange func(i, j int), keys []int, nv int, bk *backing) typedRes {
	kcap, vcap := 0, 0
	if bk != nil {
		kcap, vcap = bk.kcap, bk.vcap
	}
	ks := typedBacking[K](bk, "k:"+et, kcap, len(keys))
	vs := typedBacking[V](bk, "v:"+et, vcap, nv)
	for i, k := range keys {
		ks[i] = kc.enc(k)
	}
	for i := range vs {
		vs[i] = vc.enc(i)
	}
	var tornK, tornV []int
	return typedRes{
		call: func() {
			sortx.SliceBy(ks, vs, func(i, j int) bool {
				inRange(i, j)
				r := kc.key(ks[i]) < kc.key(ks[j])
				m.note(i, j, r)
				return r
			})
		},
		finalKeys: func() []int {
			out := make([]int, len(ks))
			for i, e := range ks {
				x, ok := kc.dec(e)
				if !ok {
					tornK = append(tornK, i)
				}
				out[i] = x
			}
			return out
		},
		finalVals: func() []int {
			out := make([]int, len(vs))
			for i, e := range vs {
				x, ok := vc.dec(e)
				if !ok {
					tornV = append(tornV, i)
					x = -1
				}
				out[i] = x
			}
			return out
		},
		torn: func() string {
			if len(tornK)+len(tornV) == 0 {
				return ""
			}
			return fmt.Sprintf(" torn k=%d@%s v=%d@%s", len(tornK), showPos(tornK), len(tornV), showPos(tornV))
		},
	}
}

func typedV[K any](kc codec[K], vt, et string, m *meter, inRange func(i, j int), keys []int, nv int, bk *backing) (typedRes, bool) {
	switch vt {
	case "int":
		return typedKV(kc, cInt, et, m, inRange, keys, nv, bk), true
	case "i64":
		return typedKV(kc, cI64, et, m, inRange, keys, nv, bk), true
	case "s24":
		return typedKV(kc, cS24, et, m, inRange, keys, nv, bk), true
	case "a12":
		return typedKV(kc, cA12, et, m, inRange, keys, nv, bk), true
	case "sn":
		return typedKV(kc, cSN, et, m, inRange, keys, nv, bk), true
	case "s40":
		return typedKV(kc, cS40, et, m, inRange, keys, nv, bk), true
	}
	return typedRes{}, false
}

func typedCall(et string, m *meter, inRange func(i, j int), keys []int, nv int, bk *backing) (call func(), fk, fv func() []int, torn func() string, ok bool) {
	kt, vt, found := strings.Cut(et, "/")
	if !found {
		return
	}
	var r typedRes
	switch kt {
	case "int":
		r, ok = typedV(cInt, vt, et, m, inRange, keys, nv, bk)
	case "i64":
		r, ok = typedV(cI64, vt, et, m, inRange, keys, nv, bk)
	case "s24":
		r, ok = typedV(cS24, vt, et, m, inRange, keys, nv, bk)
	case "a12":
		for _, k := range keys {
			if int(int32(k)) != k {
				return
			}
		}
		r, ok = typedV(cA12, vt, et, m, inRange, keys, nv, bk)
	case "sn":
		r, ok = typedV(cSN, vt, et, m, inRange, keys, nv, bk)
	case "s40":
		r, ok = typedV(cS40, vt, et, m, inRange, keys, nv, bk)
	}
	if vt == "a12" && int(int32(nv)) != nv {
		ok = false
	}
	return r.call, r.finalKeys, r.finalVals, r.torn, ok
}

// element type pairs: at least one side is a multi-word type
var etPairs = []string{"int/s24", "int/a12", "int/sn", "s24/i64", "a12/int", "sn/s24", "s24/a12", "a12/sn", "int/s40", "s40/s24", "sn/sn", "s24/s24"}

func bigShape(c *hx.Ctx, shape string, n int) []int {
	switch shape {
	case "fewDistinct":
		return pattern(c, []string{"dups5", "dups3", "dupsSqrt"}[c.Rng.Intn(3)], n)
	case "dups5":
		return pattern(c, "dups5", n)
	case "halves": // two sorted runs of distinct keys, interleaving ranks
		a := pattern(c, "random", n)
		sort.Ints(a[:n/2])
		sort.Ints(a[n/2:])
		return a
	}
	return pattern(c, shape, n)
}

// genTyped: the tagged element types on small inputs (every pair, lengths around the insertion / pivot thresholds,
// length mismatches, several steps on one backing array) and on BIG inputs (2^16+1 … 2^19 elements)
func genTyped(c *hx.Ctx) {
	// small: every pair x a few lengths x shapes
	for pi, et := range etPairs {
		for si, n := range []int{0, 1, 2, 5, 12, 13, 40, 41, 100, 1000} {
			kind := kinds[(pi+si)%(len(kinds)-1)] // not the killer
			if n == 0 {
				kind = "random"
			}
			keys := pattern(c, kind, n)
			nv := n
			switch (pi + si) % 5 {
			case 1:
				nv = n - n/3
			case 3:
				nv = n + 2
			}
			c.Emit("multi %d %d et=%s | int %s %d", n, nv, et, showInts(keys), nv)
			c.Count("typed_small")
		}
	}
	for i := 0; i < c.Budget(150, 3000); i++ {
		et := etPairs[c.Rng.Intn(len(etPairs))]
		kcap := c.Rng.Pick([]int{8, 16, 32, 64, 150, 400})
		nsteps := c.Rng.Range(1, 4)
		line := fmt.Sprintf("multi %d %d et=%s", kcap, kcap, et)
		for st := 0; st < nsteps; st++ {
			l := c.Rng.Range(0, kcap)
			letters := c.Rng.Pick([]int{2, 5, 50, 1000})
			a := make([]int, l)
			for j := range a {
				a[j] = c.Rng.Intn(letters)
			}
			nv := l
			if c.Rng.Intn(5) == 0 {
				nv = c.Rng.Range(0, kcap)
			}
			line += fmt.Sprintf(" | %s %s %d", []string{"int", "intb"}[c.Rng.Intn(2)], showInts(a), nv)
		}
		c.Emit("%s", line)
		c.Count("typed_multi_random")
	}
	// big: sizes x shapes, element type pairs rotating with the seed
	type bigCase struct {
		n     int
		shape string
	}
	k1, k2 := c.Rng.Range(1, 64), c.Rng.Range(65, 4000)
	var cases []bigCase
	if c.Thorough() {
		for _, n := range []int{1<<16 + 1, 131072 + k1, 131072 + k2, 200003, 524288} {
			for _, shape := range []string{"random", "fewDistinct", "sorted", "organ"} {
				cases = append(cases, bigCase{n, shape})
			}
		}
		cases = append(cases, bigCase{200003, "halves"}, bigCase{200003, "reversed"}, bigCase{200003, "dups5"},
			bigCase{300007, "random"}, bigCase{300007, "dups5"})
	} else {
		cases = []bigCase{{1<<16 + 1, "random"}, {131072 + k1, []string{"sorted", "organ"}[c.Rng.Intn(2)]},
			{200003, "dups5"}, {200003, "random"}}
	}
	off := c.Rng.Intn(len(etPairs))
	for i, bc := range cases {
		et := etPairs[(off+i*5)%len(etPairs)] // 5 is coprime to the number of pairs
		keys := bigShape(c, bc.shape, bc.n)
		c.Emit("multi %d %d et=%s | intb %s %d", bc.n, bc.n, et, showInts(keys), bc.n)
		c.Count("big_" + bc.shape)
		c.Count("big_n_" + strconv.Itoa(bc.n>>16<<16) + "+")
	}
}
