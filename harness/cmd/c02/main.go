// C02 harness: solo runs of one thread of loom.Queue from reachable states (others frozen), see
// ../c01/msq/msq.go.
package main

import (
	"verif/harness/cmd/c01/msq"
	"verif/harness/hx"
)

func main() { hx.Main(msq.GenC02, msq.Exec) }
