package main

import (
	"fmt"
	"sort"
	"strings"

	"verif/harness/hx"
)

// boundary-biased instant in [1, maxTicks*T]
func genInstant(r *hx.Rng, maxTicks int) int64 {
	k := int64(r.Range(0, maxTicks-1))
	switch r.Intn(8) {
	case 0:
		return (k + 1) * T // phase 0: exactly at a tick
	case 1:
		return k*T + 1
	case 2:
		return (k+1)*T - 1
	case 3:
		return k*T + T/2
	default:
		return k*T + 1 + int64(r.U64()%uint64(T-1))
	}
}

func genDelay(r *hx.Rng, t int64, pool []int64) int64 {
	switch r.Intn(14) {
	case 0:
		return 0
	case 1:
		return 1
	case 2:
		return T - 1
	case 3:
		return T
	case 4:
		return T + 1
	case 5:
		return T / 2
	case 6:
		return -int64(r.U64() % uint64(2*T)) // d < 0
	case 7:
		return -1
	case 8, 9, 10:
		// a deadline from the pool (equal deadlines across requests)
		return pool[r.Intn(len(pool))] - t
	case 11:
		// deadline exactly on a tick
		return int64(r.Range(1, 5))*T - t
	default:
		return int64(r.U64() % uint64(3*T))
	}
}

func genOne(c *hx.Ctx, class string) string {
	r := c.Rng
	nQ := r.Range(1, 3)
	n := r.Range(1, 24)
	maxTicks := 3
	var tieOne int64
	switch class {
	case "many":
		n = r.Range(33, 60)
		if r.Intn(3) == 0 {
			n = r.Range(129, 200)
		}
	case "full":
		n = r.Range(2, 10)
		maxTicks = 2
	case "tie0":
		n = r.Range(1, 10)
		if r.Intn(2) == 0 {
			n = r.Range(5, 9)
			tieOne = int64(r.Range(1, maxTicks)) * T
		}
	case "closedq":
		n = r.Range(2, 16)
		nQ = r.Range(2, 3)
	}
	pool := make([]int64, r.Range(1, 4))
	for i := range pool {
		pool[i] = genInstant(r, 5)
	}
	type rq struct {
		q    int
		d, t int64
	}
	var reqs []rq
	var burst []int64
	for i := 0; i < r.Range(1, 3); i++ {
		burst = append(burst, genInstant(r, maxTicks))
	}
	nonneg := class == "order" // all delays >= 0: the deadline-order clause applies
	for i := 0; i < n; i++ {
		t := genInstant(r, maxTicks)
		if class == "many" || r.Intn(4) == 0 {
			t = burst[r.Intn(len(burst))]
		}
		d := genDelay(r, t, pool)
		if class == "tie0" {
			t = int64(r.Range(1, maxTicks)) * T
			if tieOne > 0 {
				t = tieOne // 5-9 SendDelayed calls at ONE tick instant
			}
			if r.Intn(3) > 0 {
				d = 0
			}
		}
		if class == "many" && r.Intn(3) > 0 {
			d = pool[r.Intn(len(pool))] - t
		}
		if nonneg && d < 0 {
			d = -d % (3 * T)
		}
		q := r.Intn(nQ)
		if class == "closedq" && r.Intn(2) == 0 {
			// pairs due in the same tick: a closed-queue task with the earlier deadline, an open-queue task right after it
			dl := int64(r.Range(2, 4))*T - int64(r.Range(0, 2))*int64(r.U64()%uint64(T/2))
			if dl > t+1 {
				reqs = append(reqs, rq{0, dl - t - 1, t})
				reqs = append(reqs, rq{nQ - 1, dl - t, t})
				continue
			}
		}
		reqs = append(reqs, rq{q, d, t})
	}
	sort.SliceStable(reqs, func(i, j int) bool { return reqs[i].t < reqs[j].t })
	var maxT int64
	for _, x := range reqs {
		e := x.t
		if x.d > 0 {
			e += x.d
		}
		if e > maxT {
			maxT = e
		}
	}
	var qs []string
	for i := 0; i < nQ; i++ {
		cp := len(reqs) + 1
		var st int64
		if class == "full" {
			cp = r.Range(1, 2)
			if r.Intn(3) > 0 {
				// the consumer starts late (never at a tick instant or a send instant: offset 7 ns + odd ms)
				st = int64(r.Range(1, 5))*T + int64(r.Range(1, 900))*1000003 + 7
				if st > maxT {
					maxT = st
				}
			}
		}
		if class == "closedq" && (i == 0 || r.Intn(3) == 0) && i < nQ-1 {
			// this queue's close channel gets closed while delayed tasks for it are pending (never at a tick / send instant)
			cl := int64(r.Range(0, 3))*T + int64(r.Range(1, 900))*1000003 + 13
			if r.Intn(3) == 0 {
				cp = r.Range(1, 2) // small and closed: after close the closeChan branch is the only one when full
			}
			qs = append(qs, fmt.Sprintf("%d:%d:%d", cp, st, cl))
			continue
		}
		qs = append(qs, fmt.Sprintf("%d:%d", cp, st))
	}
	end := (maxT/T+4)*T + T/2
	var sb []string
	for _, x := range reqs {
		sb = append(sb, fmt.Sprintf("%d %d %d", x.q, x.d, x.t))
	}
	return fmt.Sprintf("c10 end %d Q %s | %s", end, strings.Join(qs, " "), strings.Join(sb, " ; "))
}

// genBurst: n delayed tasks that all fall due in the same tick (deadlines in (dueTick-1 s, dueTick]), on nQ target queues
// that have room for all of them; issued within one instant/tick (spread = false) or over several earlier ticks.
func genBurst(c *hx.Ctx, n, nQ int, spread bool) string {
	r := c.Rng
	dueTick := int64(5)
	type rq struct {
		q    int
		d, t int64
	}
	reqs := make([]rq, 0, n)
	t0 := int64(r.Range(0, 3))*T + 1 + int64(r.U64()%uint64(T-2))
	for i := 0; i < n; i++ {
		t := t0
		if spread {
			t = int64(r.Range(0, 3))*T + 1 + int64(r.U64()%uint64(T-2))
		} else if r.Intn(4) == 0 {
			t = t0 + int64(r.Intn(1000))
		}
		var dl int64
		switch r.Intn(4) {
		case 0:
			dl = dueTick * T // exactly on the tick
		case 1:
			dl = (dueTick-1)*T + 1 + int64(r.Intn(16)) // many equal deadlines
		default:
			dl = (dueTick-1)*T + 1 + int64(r.U64()%uint64(T-1))
		}
		reqs = append(reqs, rq{r.Intn(nQ), dl - t, t})
	}
	sort.SliceStable(reqs, func(i, j int) bool { return reqs[i].t < reqs[j].t })
	var qs, sb []string
	for i := 0; i < nQ; i++ {
		qs = append(qs, fmt.Sprintf("%d:0", n+1))
	}
	for _, x := range reqs {
		sb = append(sb, fmt.Sprintf("%d %d %d", x.q, x.d, x.t))
	}
	return fmt.Sprintf("c10 end %d Q %s | %s", (dueTick+4)*T+T/2, strings.Join(qs, " "), strings.Join(sb, " ; "))
}

func gen(c *hx.Ctx) {
	// bursts: more than 1024 tasks due in one tick
	sizes := []int{1025, 1500, 3000}
	if c.Thorough() {
		sizes = append(sizes, 10000)
	}
	for _, n := range sizes {
		for _, nQ := range []int{1, 3} {
			for _, spread := range []bool{false, true} {
				if n >= 3000 && nQ == 3 && !spread && !c.Thorough() {
					continue
				}
				c.Emit("%s", genBurst(c, n, nQ, spread))
				c.Count(fmt.Sprintf("burst_%d", n))
			}
		}
	}
	classes := []string{"basic", "order", "closedq", "tie0", "many", "full", "order", "basic", "closedq"}
	N := c.Budget(12000, 150000)
	for i := 0; i < N; i++ {
		cl := classes[i%len(classes)]
		c.Emit("%s", genOne(c, cl))
		c.Count("class_" + cl)
	}
}
