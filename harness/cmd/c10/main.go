// C10 harness (build tag faketime): taskx.Queue.SendDelayed under the Go runtime's virtual clock.
// The package-level delayed queue starts its 1 s ticker at process start, so its ticks are at whole virtual seconds.
//
// script:  c10 end <t> Q <cap0>:<start0>[:<close0>] <cap1>:<start1>[:<close1>] ... | <q> <d> <t> ; <q> <d> <t> ; ...
//   one sequential sender calls Queue(q).SendDelayed(d ns, handler) at virtual instant t (ns relative to the scenario
//   start, which is a tick instant); queue i has capacity cap_i; its consumer starts receiving at instant start_i;
//   with a third field the queue's close channel is closed at instant close_i (pending delayed tasks for it are then
//   consumed by SendCallback's closeChan branch).
// observation:  Q0 idx@t idx@t ... | Q1 ... | E ok      (arrival sequence per queue: request index @ virtual instant)
package main

import (
	"fmt"
	"strconv"
	"strings"
	"sync"
	"sync/atomic"
	"time"

	"github.com/lixianmin/got/taskx"
	"verif/harness/hx"
)

const T = int64(time.Second)

type req struct {
	q    int
	d, t int64
}

func exec(c *hx.Ctx, line string) string {
	parts := strings.SplitN(line, " | ", 2)
	if len(parts) != 2 {
		return "bad-script"
	}
	h := strings.Fields(parts[0])
	if len(h) < 5 || h[0] != "c10" || h[1] != "end" || h[3] != "Q" {
		return "bad-script"
	}
	endT, _ := strconv.ParseInt(h[2], 10, 64)
	var caps []int
	var starts, closes []int64
	for _, w := range h[4:] {
		cs := strings.Split(w, ":")
		if len(cs) != 2 && len(cs) != 3 {
			return "bad-script"
		}
		cp, _ := strconv.Atoi(cs[0])
		st, _ := strconv.ParseInt(cs[1], 10, 64)
		cl := int64(-1)
		if len(cs) == 3 {
			cl, _ = strconv.ParseInt(cs[2], 10, 64)
		}
		caps = append(caps, cp)
		starts = append(starts, st)
		closes = append(closes, cl)
	}
	var reqs []req
	for _, op := range strings.Split(parts[1], " ; ") {
		w := strings.Fields(op)
		if len(w) == 0 {
			continue
		}
		if len(w) != 3 {
			return "bad-script"
		}
		q, _ := strconv.Atoi(w[0])
		d, _ := strconv.ParseInt(w[1], 10, 64)
		t, _ := strconv.ParseInt(w[2], 10, 64)
		if q < 0 || q >= len(caps) {
			return "bad-script"
		}
		reqs = append(reqs, req{q, d, t})
	}

	now := time.Now().UnixNano()
	base := (now/T + 1) * T
	if base-now < 1000 {
		base += T
	}
	rel := func() int64 { return time.Now().UnixNano() - base }
	sleepUntil := func(t int64) {
		if d := t - rel(); d > 0 {
			time.Sleep(time.Duration(d))
		}
	}

	var mu sync.Mutex
	var finished atomic.Bool
	arr := make([][]string, len(caps))
	queues := make([]*taskx.Queue, len(caps))
	quit := make(chan struct{})
	got := make([]atomic.Int64, len(caps))
	expected := make([]int64, len(caps))
	for _, r := range reqs {
		expected[r.q]++
	}
	for i := range caps {
		cc := make(chan struct{})
		queues[i] = taskx.NewQueue(taskx.WithSize(caps[i]), taskx.WithCloseChan(cc), taskx.WithErrorLogger(func(format string, args ...any) {}))
		if closes[i] >= 0 {
			go func(i int) {
				sleepUntil(closes[i])
				close(cc)
			}(i)
		}
		go func(i int) {
			sleepUntil(starts[i])
			for {
				select {
				case t := <-queues[i].C:
					_ = t.Do(nil)
					got[i].Add(1)
				case <-quit:
					// leave only when nothing is outstanding for this queue: a late task must never block the global loop
					// (a closed queue never blocks the loop: its SendCallback leaves through the closeChan branch)
					if got[i].Load() >= expected[i] || closes[i] >= 0 {
						return
					}
					_ = (<-queues[i].C).Do(nil)
					got[i].Add(1)
				}
			}
		}(i)
	}
	go func() {
		for idx, r := range reqs {
			sleepUntil(r.t)
			idx, r := idx, r
			queues[r.q].SendDelayed(time.Duration(r.d), func(args any) (any, error) {
				if !finished.Load() {
					mu.Lock()
					arr[r.q] = append(arr[r.q], fmt.Sprintf("%d@%d", idx, rel()))
					mu.Unlock()
				}
				return nil, nil
			})
		}
	}()
	sleepUntil(endT)
	time.Sleep(1)
	finished.Store(true)
	close(quit)
	mu.Lock()
	defer mu.Unlock()
	var sb strings.Builder
	for i := range caps {
		fmt.Fprintf(&sb, "Q%d", i)
		for _, a := range arr[i] {
			sb.WriteString(" " + a)
		}
		sb.WriteString(" | ")
	}
	sb.WriteString("E ok")
	return sb.String()
}

func main() { hx.Main(gen, exec) }
