// C09 harness (build tag faketime): taskx.Queue under the Go runtime's virtual clock.
//
// script:  c09 K <k> close <t|-> cstop <n|-> [opts <tok> ...] cons <start> <d0> <d1> ... | <p> <kind> <t> ; <p> <kind> <t> ; ...
//   opts: the queue is built with NewQueue(options...) from the listed calls in that order: sz<n> = WithSize(n) (n may be <= 0),
//         cc0 = WithCloseChan(nil), cc1/cc2 = two real channels (the closer closes channel 1), lg0 = WithErrorLogger(nil),
//         lg1/lg2 = two counting loggers.  Without opts: WithSize(k), WithCloseChan(chan 1), WithErrorLogger(logger 1).
//   extra kinds: rs<j> = SendTask(the task this producer's send #j returned), re<j> = SendTask(the taskEmpty its nil send #j returned)
//   kinds: cb0..cb3 (SendCallback; handler returns pair code: bit0 value non-nil, bit1 err non-nil),
//          cd0..cd3 (same, the consumer calls Do twice), nil (SendCallback(nil)), tk (SendTask(user task)), tn (SendTask(nil))
//   times are virtual ns relative to the scenario start; producer p sends at instants = p+1 (mod 16), the consumer
//   finishes tasks at instants = 8 (mod 16), close happens at = 12 (mod 16) or exactly at a send instant (tie class).
// observation (one line):
//   S p.i:kind:tbegin:treturn:out ... | R p.i@t ... | X p.i@t=pair ... | G p.i@t=pair ... | H p.i=pair ... | F n | L p.i ... | E ok
//   S sends (out = put/abort/imm/blocked), R receive sequence, X executions, G Get2 of the getter started when the send
//   returned, H Get2 once more at the end, F "queue is full" log lines, L tasks left in C at the end.
package main

import (
	"errors"
	"fmt"
	"io"
	"os"
	"reflect"
	"strconv"
	"strings"
	"sync"
	"sync/atomic"
	"time"

	"github.com/lixianmin/got/taskx"
	"verif/harness/hx"
)

type sendSpec struct {
	g, p, i int
	kind    string
	at      int64
}

type srec struct {
	hasTb, hasTr bool
	tb, tr       int64
	task         taskx.Task
	out          string
}

type scen struct {
	mu       sync.Mutex
	base     int64
	sends    []sendSpec
	rec      []srec
	R, X, L  []string
	G, H     []string
	execCnt  []int
	ret      []any // what the handler returned on its first run (pointer identity)
	received []bool
	left     []bool
	recvCnt  []int // receptions of the task first sent by g
	leftCnt  []int // occurrences of that task left in C at the end
	fresh    bool  // the consumer has just received a task (the next handler run is a reception, not a second Do)
	draining bool
	full2    int
	lastRecv int64
	curDelay int64
	lastG    int
	finished atomic.Bool
	dead     atomic.Bool
	full     int
}

func (sc *scen) rel() int64 { return time.Now().UnixNano() - sc.base }

func (sc *scen) sleepUntil(t int64) {
	d := t - sc.rel()
	if d > 0 {
		time.Sleep(time.Duration(d))
	}
}

func alignUp(x int64) int64 {
	r := x % 16
	if r <= 8 {
		return x - r + 8
	}
	return x - r + 24
}

func tag(sp sendSpec) string { return fmt.Sprintf("%d.%d", sp.p, sp.i) }

func isCb(kind string) bool { return strings.HasPrefix(kind, "cb") || strings.HasPrefix(kind, "cd") }

// ---- handler results: shapes and canonical rendering (dynamic type + value / identity; no spaces)
type box struct{ V int }
type resErr struct{ V int } // a result that is itself an error value

func (r resErr) Error() string { return "E" + strconv.Itoa(r.V) }

type perr struct{ V int }

func (p *perr) Error() string { return "P" }

func nosp(s string) string { return strings.ReplaceAll(s, " ", "_") }

// render shows a result with its dynamic type, so that (*T)(nil) and nil differ; `same` is the pointer the handler
// returned (identity is compared for non-nil pointers).
func render(v any, same any) string {
	if v == nil {
		return "nil"
	}
	t := nosp(fmt.Sprintf("%T", v))
	rv := reflect.ValueOf(v)
	switch rv.Kind() {
	case reflect.Ptr:
		if rv.IsNil() {
			return t + "(nil)"
		}
		id := "#other"
		if same != nil && reflect.ValueOf(same).Kind() == reflect.Ptr && reflect.ValueOf(same).Pointer() == rv.Pointer() {
			id = "#id"
		}
		return t + id + "=" + nosp(fmt.Sprintf("%v", rv.Elem().Interface()))
	case reflect.Map, reflect.Slice, reflect.Chan, reflect.Func:
		if rv.IsNil() {
			return t + "(nil)"
		}
	}
	return t + "=" + nosp(fmt.Sprintf("%v", v))
}

func renderErr(e error) string {
	if e == nil {
		return "nil"
	}
	return nosp(fmt.Sprintf("%T", e)) + "=" + nosp(e.Error())
}

func showPair(v any, e error, same any) string { return render(v, same) + "/" + renderErr(e) }

// result shape of a kind code: codes 0..3 = (nil|int) x (nil|err); code >= 4: shape code/4+1, err bit = bit 1
func resShape(code int) int {
	if code < 4 {
		return code % 2
	}
	return code/4 + 1
}

func pairOf(code int, v int) (any, error) {
	var a any
	var e error
	switch resShape(code) {
	case 0:
		a = nil
	case 1:
		a = v
	case 2:
		a = (*box)(nil)
	case 3:
		a = map[string]int(nil)
	case 4:
		a = []string(nil)
	case 5:
		a = (chan int)(nil)
	case 6:
		a = (func() int)(nil)
	case 7:
		a = &box{v}
	case 8:
		a = box{v}
	case 9:
		a = [2]int{v, v + 1}
	case 10:
		a = "s" + strconv.Itoa(v)
	case 11:
		a = resErr{v}
	case 12:
		a = []int{v}
	case 13:
		a = map[string]int{"k": v}
	case 14:
		a = (*perr)(nil)
	default:
		a = v
	}
	if code/2%2 == 1 {
		e = errors.New(strconv.Itoa(v))
	}
	return a, e
}

// handle = body of every handler / user task Do: runs in the consumer goroutine.
func (sc *scen) handle(g int) (any, error) {
	sp := sc.sends[g]
	if sc.finished.Load() {
		sc.mu.Lock()
		sc.lastG = g
		if sc.draining {
			sc.left[g] = true
			sc.leftCnt[g]++
			sc.L = append(sc.L, tag(sp))
		}
		sc.mu.Unlock()
		return nil, nil
	}
	sc.mu.Lock()
	sc.execCnt[g]++
	phase := sc.execCnt[g]
	if sc.fresh {
		sc.fresh = false
		sc.recvCnt[g]++
		label := tag(sp)
		if sc.recvCnt[g] > 1 {
			label = fmt.Sprintf("%s^%d", label, sc.recvCnt[g])
		}
		sc.R = append(sc.R, fmt.Sprintf("%s@%d", label, sc.lastRecv))
		sc.received[g] = true
	}
	sc.lastG = g
	delay := sc.curDelay
	sc.mu.Unlock()
	sc.sleepUntil(alignUp(sc.rel() + delay))
	var v any
	var e error
	s := "user"
	if sp.kind != "tk" {
		code, _ := strconv.Atoi(sp.kind[2:])
		val := 1000*sp.p + sp.i + 1
		if phase == 1 {
			v, e = pairOf(code, val)
		} else {
			v, e = pairOf((code%4+1)%4, val+500000)
		}
		s = showPair(v, e, v)
	}
	sc.mu.Lock()
	if phase == 1 {
		sc.ret[g] = v
	}
	sc.X = append(sc.X, fmt.Sprintf("%s@%d=%s", tag(sp), sc.rel(), s))
	sc.mu.Unlock()
	return v, e
}

// safeDo calls t.Do and reports a panic inside Do as a distinct observation `p.i@t!panic` in the X section.
func (sc *scen) safeDo(t taskx.Task) {
	defer func() {
		if r := recover(); r != nil {
			sc.mu.Lock()
			who := "?"
			if sc.lastG >= 0 {
				who = tag(sc.sends[sc.lastG])
			}
			sc.X = append(sc.X, fmt.Sprintf("%s@%d!panic", who, sc.rel()))
			sc.mu.Unlock()
		}
	}()
	_ = t.Do(nil)
}

type userTask struct {
	sc *scen
	g  int
}

func (u *userTask) Do(args any) error  { _, _ = u.sc.handle(u.g); return nil }
func (u *userTask) Get1() any          { return nil }
func (u *userTask) Get2() (any, error) { return nil, nil }

func parseOpt(s string) int64 {
	if s == "-" {
		return -1
	}
	n, _ := strconv.ParseInt(s, 10, 64)
	return n
}

func exec(c *hx.Ctx, line string) string {
	if strings.HasPrefix(line, "stress ") {
		return runStress(c, strings.Fields(line))
	}
	parts := strings.SplitN(line, " | ", 2)
	if len(parts) != 2 {
		return "bad-script"
	}
	h := strings.Fields(parts[0])
	if len(h) < 9 || h[0] != "c09" {
		return "bad-script"
	}
	K, _ := strconv.Atoi(h[2])
	closeAt := parseOpt(h[4])
	cstop := parseOpt(h[6])
	ci := 7
	for ci < len(h) && h[ci] != "cons" {
		ci++
	}
	if ci+1 >= len(h) {
		return "bad-script"
	}
	var optToks []string
	hasOpts := false
	if h[7] == "opts" {
		hasOpts = true
		optToks = h[8:ci]
	}
	cstart, _ := strconv.ParseInt(h[ci+1], 10, 64)
	var cdel []int64
	for _, w := range h[ci+2:] {
		n, _ := strconv.ParseInt(w, 10, 64)
		cdel = append(cdel, n)
	}
	if len(cdel) == 0 {
		cdel = []int64{16}
	}
	sc := &scen{}
	cnt := map[int]int{}
	nP := 0
	var maxAt, maxDel int64
	for _, op := range strings.Split(parts[1], " ; ") {
		w := strings.Fields(op)
		if len(w) == 0 {
			continue
		}
		if len(w) != 3 {
			return "bad-script"
		}
		p, _ := strconv.Atoi(w[0])
		at, _ := strconv.ParseInt(w[2], 10, 64)
		sc.sends = append(sc.sends, sendSpec{g: len(sc.sends), p: p, i: cnt[p], kind: w[1], at: at})
		cnt[p]++
		if p+1 > nP {
			nP = p + 1
		}
		if at > maxAt {
			maxAt = at
		}
	}
	for _, d := range cdel {
		if d > maxDel {
			maxDel = d
		}
	}
	n := len(sc.sends)
	sc.rec = make([]srec, n)
	sc.G = make([]string, n)
	sc.H = make([]string, n)
	sc.execCnt = make([]int, n)
	sc.ret = make([]any, n)
	sc.received = make([]bool, n)
	sc.left = make([]bool, n)
	sc.recvCnt = make([]int, n)
	sc.leftCnt = make([]int, n)
	byProd := make([][]sendSpec, nP)
	for _, sp := range sc.sends {
		byProd[sp.p] = append(byProd[sp.p], sp)
	}
	deadline := (maxAt + int64(2*n+6)*(maxDel+48) + cstart + 1024) / 16 * 16
	if closeAt > deadline {
		deadline = (closeAt + 1024) / 16 * 16
	}

	cc := make(chan struct{})  // channel 1: the one the closer closes
	cc2 := make(chan struct{}) // channel 2: never closed
	lg1 := func(format string, args ...any) {
		if strings.Contains(format, "full") {
			sc.mu.Lock()
			sc.full++
			sc.mu.Unlock()
		}
	}
	lg2 := func(format string, args ...any) {
		if strings.Contains(format, "full") {
			sc.mu.Lock()
			sc.full2++
			sc.mu.Unlock()
		}
	}
	var options []taskx.Option
	if !hasOpts {
		options = []taskx.Option{taskx.WithSize(K), taskx.WithCloseChan(cc), taskx.WithErrorLogger(lg1)}
	}
	for _, tok := range optToks {
		if len(tok) < 3 {
			return "bad-script"
		}
		n, err := strconv.Atoi(tok[2:])
		if err != nil {
			return "bad-script"
		}
		switch tok[:2] {
		case "sz":
			options = append(options, taskx.WithSize(n))
		case "cc":
			switch n {
			case 0:
				options = append(options, taskx.WithCloseChan(nil))
			case 1:
				options = append(options, taskx.WithCloseChan(cc))
			default:
				options = append(options, taskx.WithCloseChan(cc2))
			}
		case "lg":
			switch n {
			case 0:
				options = append(options, taskx.WithErrorLogger(nil))
			case 1:
				options = append(options, taskx.WithErrorLogger(lg1))
			default:
				options = append(options, taskx.WithErrorLogger(lg2))
			}
		default:
			return "bad-script"
		}
	}
	mark := stderrMark()
	q := taskx.NewQueue(options...)
	// a send that panics (e.g. inside checkQueueFull) is reported as out=panic
	safeSend := func(g int, f func()) (ok bool) {
		defer func() {
			if r := recover(); r != nil {
				sc.mu.Lock()
				sc.rec[g].out = "panic"
				sc.mu.Unlock()
				ok = false
			}
		}()
		f()
		return true
	}

	now := time.Now().UnixNano()
	sc.base = (now/1024 + 2) * 1024

	var prodWG sync.WaitGroup
	for p := 0; p < nP; p++ {
		prodWG.Add(1)
		go func(p int) {
			defer prodWG.Done()
			for _, sp := range byProd[p] {
				sc.sleepUntil(sp.at)
				if sc.dead.Load() {
					return
				}
				g := sp.g
				tb := sc.rel()
				switch sp.kind {
				case "nil":
					t := q.SendCallback(nil)
					tr := sc.rel()
					sc.mu.Lock()
					sc.rec[g] = srec{hasTb: true, hasTr: true, tb: tb, tr: tr, out: "imm", task: t}
					sc.mu.Unlock()
					gs := "NILTASK"
					if t != nil {
						v, e := t.Get2()
						gs = showPair(v, e, nil)
						if g1 := render(t.Get1(), nil); g1 != render(v, nil) {
							gs += "~get1:" + g1
						}
					}
					sc.mu.Lock()
					sc.G[g] = fmt.Sprintf("%s@%d=%s", tag(sp), sc.rel(), gs)
					sc.mu.Unlock()
				case "tn":
					t := q.SendTask(nil)
					tr := sc.rel()
					out := "imm"
					if t != nil {
						out = "nonnil"
					}
					sc.mu.Lock()
					sc.rec[g] = srec{hasTb: true, hasTr: true, tb: tb, tr: tr, out: out}
					sc.mu.Unlock()
				case "tk":
					ut := &userTask{sc: sc, g: g}
					sc.mu.Lock()
					sc.rec[g] = srec{hasTb: true, tb: tb, task: ut}
					sc.mu.Unlock()
					if !safeSend(g, func() { q.SendTask(ut) }) {
						continue
					}
					tr := sc.rel()
					sc.mu.Lock()
					sc.rec[g].hasTr, sc.rec[g].tr = true, tr
					sc.mu.Unlock()
				default:
					if strings.HasPrefix(sp.kind, "rs") || strings.HasPrefix(sp.kind, "re") {
						// re-send the task an earlier send of this producer returned
						j, _ := strconv.Atoi(sp.kind[2:])
						var old taskx.Task
						if j >= 0 && j < len(byProd[p]) && byProd[p][j].g < g {
							sc.mu.Lock()
							old = sc.rec[byProd[p][j].g].task
							sc.mu.Unlock()
						}
						sc.mu.Lock()
						sc.rec[g] = srec{hasTb: true, tb: tb}
						sc.mu.Unlock()
						if old == nil {
							sc.mu.Lock()
							sc.rec[g].out = "notask"
							sc.mu.Unlock()
							continue
						}
						if !safeSend(g, func() { q.SendTask(old) }) {
							continue
						}
						tr := sc.rel()
						sc.mu.Lock()
						sc.rec[g].hasTr, sc.rec[g].tr = true, tr
						sc.mu.Unlock()
						continue
					}
					sc.mu.Lock()
					sc.rec[g] = srec{hasTb: true, tb: tb}
					sc.mu.Unlock()
					var task taskx.Task
					if !safeSend(g, func() { task = q.SendCallback(func(args any) (any, error) { return sc.handle(g) }) }) {
						continue
					}
					tr := sc.rel()
					sc.mu.Lock()
					sc.rec[g].hasTr, sc.rec[g].tr, sc.rec[g].task = true, tr, task
					sc.mu.Unlock()
					if task == nil {
						sc.mu.Lock()
						sc.G[g] = fmt.Sprintf("%s@%d=NILTASK", tag(sp), tr)
						sc.mu.Unlock()
					} else {
						go func() {
							v, e := task.Get2()
							v1 := task.Get1()
							if sc.finished.Load() {
								return
							}
							sc.mu.Lock()
							gs := showPair(v, e, sc.ret[g])
							if g1 := render(v1, sc.ret[g]); g1 != render(v, sc.ret[g]) {
								gs += "~get1:" + g1
							}
							sc.G[g] = fmt.Sprintf("%s@%d=%s", tag(sp), sc.rel(), gs)
							sc.mu.Unlock()
						}()
					}
				}
			}
		}(p)
	}

	// consumer
	stop := make(chan struct{})
	var idle, stopped atomic.Bool
	go func() {
		sc.sleepUntil(alignUp(cstart))
		ncons := 0
		for {
			idle.Store(true)
			select {
			case t := <-q.C:
				idle.Store(false)
				sc.mu.Lock()
				sc.lastRecv = sc.rel()
				sc.curDelay = cdel[ncons%len(cdel)]
				sc.lastG = -1
				sc.fresh = true
				sc.mu.Unlock()
				ncons++
				sc.safeDo(t)
				sc.mu.Lock()
				g := sc.lastG
				again := g >= 0 && strings.HasPrefix(sc.sends[g].kind, "cd") && sc.execCnt[g] == 1
				delay := sc.curDelay
				if g < 0 {
					// no handler ran: a taskEmpty came through the channel
					sc.fresh = false
					sc.R = append(sc.R, fmt.Sprintf("E@%d", sc.lastRecv))
				}
				sc.mu.Unlock()
				if g < 0 {
					sc.sleepUntil(alignUp(sc.rel() + delay))
					sc.mu.Lock()
					sc.X = append(sc.X, fmt.Sprintf("E@%d=empty", sc.rel()))
					sc.mu.Unlock()
				}
				if again {
					sc.safeDo(t)
				}
				if cstop >= 0 && int64(ncons) >= cstop {
					stopped.Store(true)
					return
				}
			case <-stop:
				return
			}
		}
	}()

	// closer
	if closeAt >= 0 {
		go func() {
			sc.sleepUntil(closeAt)
			close(cc)
		}()
	}

	// controller: wait for the producers (or the deadline), then for the consumer to run dry
	doneCh := make(chan struct{})
	go func() { prodWG.Wait(); close(doneCh) }()
	sc.sleepUntil(0)
	select {
	case <-doneCh:
	case <-time.After(time.Duration(deadline - sc.rel())):
	}
	for {
		// the next multiple of 16 is an instant at which nothing is scripted: everything earlier has settled
		sc.sleepUntil((sc.rel()/16 + 1) * 16)
		if stopped.Load() || (len(q.C) == 0 && idle.Load()) || sc.rel() >= deadline+4096 {
			break
		}
	}
	close(stop)
	time.Sleep(1)

	// late Get2 of every executed callback task
	for g, sp := range sc.sends {
		sc.mu.Lock()
		r := sc.rec[g]
		ex := sc.execCnt[g] > 0
		sc.mu.Unlock()
		if !isCb(sp.kind) || !r.hasTb {
			continue
		}
		if !ex || r.task == nil {
			sc.H[g] = tag(sp) + "=-"
			continue
		}
		sc.H[g] = tag(sp) + "=blocked"
		go func(g int, sp sendSpec, t taskx.Task) {
			v, e := t.Get2()
			sc.mu.Lock()
			sc.H[g] = tag(sp) + "=" + showPair(v, e, sc.ret[g])
			sc.mu.Unlock()
		}(g, sp, r.task)
	}
	time.Sleep(1)

	// ---- snapshot is complete; from here on only cleanup
	sc.finished.Store(true)
	sc.dead.Store(true)
drain:
	for {
		select {
		case t := <-q.C:
			sc.mu.Lock()
			sc.draining = true
			sc.lastG = -1
			sc.mu.Unlock()
			_ = t.Do(nil) // records the tag in L (handler in finished mode)
			sc.mu.Lock()
			if sc.lastG < 0 {
				sc.L = append(sc.L, "E")
			}
			sc.draining = false
			sc.mu.Unlock()
		default:
			break drain
		}
	}
	select {
	case <-doneCh:
	default:
		// producers still blocked (only with a broken queue): keep the channel drained so that they can leave
		go func() {
			for t := range q.C {
				_ = t
			}
		}()
	}
	sc.mu.Lock()
	defer sc.mu.Unlock()
	// which sends of a task went into C: a task arrived (received or left in C) as often as it was put; the sends of one
	// task are all by one producer, in order, so the first `arrivals` returned sends are the puts
	putOf := make([]bool, n)
	for g, sp := range sc.sends {
		if strings.HasPrefix(sp.kind, "rs") || strings.HasPrefix(sp.kind, "re") || sp.kind == "nil" || sp.kind == "tn" {
			continue
		}
		k := sc.recvCnt[g] + sc.leftCnt[g]
		if sp.kind == "tk" && sc.received[g] && sc.recvCnt[g] == 0 {
			k++
		}
		chain := []int{g}
		for _, sp2 := range byProd[sp.p] {
			if strings.HasPrefix(sp2.kind, "rs") {
				if j, _ := strconv.Atoi(sp2.kind[2:]); j == sp.i {
					chain = append(chain, sp2.g)
				}
			}
		}
		for _, x := range chain {
			if sc.rec[x].hasTr && k > 0 {
				putOf[x] = true
				k--
			}
		}
	}
	var sb strings.Builder
	sb.WriteString("S")
	for g, sp := range sc.sends {
		r := sc.rec[g]
		out := r.out
		tb, tr := "-", "-"
		if r.hasTb {
			tb = strconv.FormatInt(r.tb, 10)
		}
		if r.hasTr {
			tr = strconv.FormatInt(r.tr, 10)
		}
		if out == "" {
			switch {
			case !r.hasTb:
				out = "-"
			case !r.hasTr:
				out = "blocked"
			case strings.HasPrefix(sp.kind, "re"):
				out = "ret" // a taskEmpty carries no identity: whether this one went into C is not observable
			case putOf[g]:
				out = "put"
			default:
				out = "abort"
			}
		}
		fmt.Fprintf(&sb, " %s:%s:%s:%s:%s", tag(sp), sp.kind, tb, tr, out)
	}
	sb.WriteString(" | R")
	for _, x := range sc.R {
		sb.WriteString(" " + x)
	}
	sb.WriteString(" | X")
	for _, x := range sc.X {
		sb.WriteString(" " + x)
	}
	sb.WriteString(" | G")
	for g, sp := range sc.sends {
		if sc.G[g] != "" {
			sb.WriteString(" " + sc.G[g])
		} else if isCb(sp.kind) && sc.rec[g].hasTr {
			sb.WriteString(" " + tag(sp) + "@-")
		}
	}
	sb.WriteString(" | H")
	for g := range sc.sends {
		if sc.H[g] != "" {
			sb.WriteString(" " + sc.H[g])
		}
	}
	fmt.Fprintf(&sb, " | F %d %d %d | L", sc.full, sc.full2, defaultLoggerLines(mark))
	for _, x := range sc.L {
		sb.WriteString(" " + x)
	}
	sb.WriteString(" | E ok")
	// release getters of tasks that never ran (aborted sends)
	for g := range sc.sends {
		if t := sc.rec[g].task; t != nil && sc.execCnt[g] == 0 && !sc.left[g] {
			go func(t taskx.Task) { _ = t.Do(nil) }(t)
		}
	}
	return sb.String()
}

// The default errLogger of taskx prints to os.Stderr. Under faketime the process's real stderr is framed (binary), so
// os.Stderr is pointed at a scratch file; exec counts the "queue is full" lines the default logger wrote per scenario.
var stderrFile *os.File
var origStderr = os.Stderr

func defaultLoggerLines(from int64) int {
	if stderrFile == nil {
		return 0
	}
	end, err := stderrFile.Seek(0, io.SeekEnd)
	if err != nil || end <= from {
		return 0
	}
	buf := make([]byte, end-from)
	if _, err := stderrFile.ReadAt(buf, from); err != nil {
		return 0
	}
	n := strings.Count(string(buf), "is full")
	if end > 1<<22 {
		_ = stderrFile.Truncate(0)
	}
	return n
}

func stderrMark() int64 {
	if stderrFile == nil {
		return 0
	}
	end, _ := stderrFile.Seek(0, io.SeekEnd)
	return end
}

func main() {
	if f, err := os.CreateTemp("", "c09-stderr-*"); err == nil {
		_ = os.Remove(f.Name()) // anonymous scratch file
		stderrFile = f
		os.Stderr = f
	}
	hx.Main(gen, exec)
}
