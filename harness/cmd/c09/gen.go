package main

import (
	"fmt"
	"sort"
	"strings"

	"verif/harness/hx"
)

// result code of a callback: 0..3 = (nil|int) x (nil|err); 4*s + {0,2} = shape s+1 (typed nils, pointer, struct, array,
// string, error-typed result, slice, map) without / with a non-nil err
func genCode(r *hx.Rng) int {
	if r.Intn(5) < 2 {
		return r.Intn(4)
	}
	return 4*r.Range(1, 13) + 2*r.Intn(2)
}

// one generated scenario; class decides the shape
func genOne(c *hx.Ctx, class string) string {
	r := c.Rng
	K := r.Range(1, 8)
	if r.Intn(3) == 0 {
		K = r.Range(1, 2)
	}
	needClose := class == "close-mid" || class == "close-tie" || class == "cstop" || class == "close-early"
	// queue construction: two thirds of the scenarios build the queue from an explicit option list
	optS := ""
	if r.Intn(3) > 0 {
		var toks []string
		size, ch := 8, 0
		add := func(t string) {
			toks = append(toks, t)
			var n int
			fmt.Sscanf(t[2:], "%d", &n)
			switch t[:2] {
			case "sz":
				if n > 0 {
					size = n
				}
			case "cc":
				if n > 0 {
					ch = n
				}
			}
		}
		for i := r.Intn(6); i > 0; i-- {
			switch r.Intn(9) {
			case 0:
				add(fmt.Sprintf("sz%d", r.Pick([]int{0, -1, -8})))
			case 1, 2:
				add(fmt.Sprintf("sz%d", r.Range(1, 8)))
			case 3:
				add("cc0")
			case 4:
				add(fmt.Sprintf("cc%d", r.Range(1, 2)))
			case 5, 6:
				add("lg0")
			default:
				add(fmt.Sprintf("lg%d", r.Range(1, 2)))
			}
		}
		if r.Intn(2) == 0 {
			add(fmt.Sprintf("sz%d", K)) // mostly small queues: they must get full with every logger variant
			if r.Intn(3) == 0 {
				add(fmt.Sprintf("sz%d", r.Pick([]int{0, -2})))
			}
		}
		if needClose && ch != 1 {
			add("cc1")
			if r.Intn(2) == 0 {
				add("cc0")
			}
		}
		if r.Intn(4) == 0 {
			add("lg0") // WithErrorLogger(nil) as the last logger option
		}
		K = size
		optS = " opts " + strings.Join(toks, " ")
		if len(toks) == 0 {
			optS = " opts"
		}
	}
	nP := r.Range(1, 4)
	maxSends := 20
	type op struct {
		p    int
		kind string
		at   int64
	}
	var ops []op
	maxSlot := 0
	for p := 0; p < nP; p++ {
		n := r.Range(1, maxSends)
		if r.Intn(3) == 0 {
			n = r.Range(1, 5)
		}
		slot := r.Range(1, 4)
		var cbIdx, nilIdx []int
		for i := 0; i < n; i++ {
			kind := ""
			if !needClose && len(cbIdx) > 0 && r.Intn(7) == 0 {
				// re-send a task this producer sent before (it may or may not have been executed by now)
				kind = fmt.Sprintf("rs%d", cbIdx[r.Intn(len(cbIdx))])
			} else if !needClose && len(nilIdx) > 0 && r.Intn(10) == 0 {
				kind = fmt.Sprintf("re%d", nilIdx[r.Intn(len(nilIdx))])
			}
			if kind != "" {
				ops = append(ops, op{p, kind, int64(16*slot + p + 1)})
				if slot > maxSlot {
					maxSlot = slot
				}
				slot += r.Intn(4)
				continue
			}
			switch x := r.Intn(20); {
			case x < 13:
				kind = fmt.Sprintf("cb%d", genCode(r))
			case x < 15:
				kind = fmt.Sprintf("cd%d", genCode(r))
			case x < 17:
				kind = "nil"
			case x < 19:
				kind = "tk"
			default:
				kind = "tn"
			}
			if strings.HasPrefix(kind, "cb") || strings.HasPrefix(kind, "cd") {
				cbIdx = append(cbIdx, i)
			} else if kind == "nil" {
				nilIdx = append(nilIdx, i)
			}
			ops = append(ops, op{p, kind, int64(16*slot + p + 1)})
			if slot > maxSlot {
				maxSlot = slot
			}
			switch class {
			case "fast":
				slot += r.Range(1, 6)
			default:
				// bursts: several sends at the same instant, then a gap
				if r.Intn(3) > 0 {
					slot += r.Intn(3)
				}
			}
		}
	}
	sort.SliceStable(ops, func(i, j int) bool { return ops[i].at < ops[j].at })
	// consumer
	cstart := int64(r.Intn(8) * 16)
	nd := r.Range(1, 6)
	var cdel []string
	for i := 0; i < nd; i++ {
		d := 16 * r.Range(1, 6)
		if class == "fast" {
			d = r.Range(1, 16)
		}
		cdel = append(cdel, fmt.Sprint(d))
	}
	closeS, cstopS := "-", "-"
	horizon := 16 * (maxSlot + 2)
	switch class {
	case "close-mid":
		t := 16*r.Range(1, (horizon+len(ops)*48)/16) + 12
		closeS = fmt.Sprint(t)
	case "close-tie":
		o := ops[r.Intn(len(ops))]
		closeS = fmt.Sprint(o.at)
	case "cstop":
		cstopS = fmt.Sprint(r.Range(1, len(ops)))
		t := 16*r.Range(1, (horizon+len(ops)*32)/16) + 12
		closeS = fmt.Sprint(t)
	case "close-early":
		closeS = fmt.Sprint(16*r.Range(0, 3) + 12)
	}
	var sb []string
	for _, o := range ops {
		sb = append(sb, fmt.Sprintf("%d %s %d", o.p, o.kind, o.at))
	}
	return fmt.Sprintf("c09 K %d close %s cstop %s%s cons %d %s | %s", K, closeS, cstopS, optS, cstart, strings.Join(cdel, " "), strings.Join(sb, " ; "))
}

// genTie: 5-9 producers all send at ONE virtual instant (T0 = 11 mod 16) against a full / nearly full queue, with a close at
// that very instant (or later, or none). The order in which these goroutines run is up to the Go runtime; the monitor has to
// accept every order (it searches over them).
func genTie(c *hx.Ctx) string {
	r := c.Rng
	res := []int{1, 2, 3, 4, 5, 6, 7, 9, 10} // private residues of the producers (8 = consumer, 0 = controller, 12 = closer)
	nP := r.Range(5, 9)
	K := r.Range(1, 4)
	s0 := r.Range(3, 8)
	T0 := int64(16*s0 + 11)
	type op struct {
		p    int
		kind string
		at   int64
	}
	var ops []op
	kindOf := func() string {
		switch x := r.Intn(12); {
		case x < 9:
			return fmt.Sprintf("cb%d", genCode(r))
		case x < 10:
			return "tk"
		case x < 11:
			return "nil"
		default:
			return fmt.Sprintf("cd%d", r.Intn(4))
		}
	}
	// pre-fill: K, K-1 or K-2 tasks are in the queue at T0 (the consumer starts after T0 or is slow)
	pre := K - r.Intn(3)
	if pre < 0 {
		pre = 0
	}
	for i := 0; i < pre; i++ {
		p := r.Intn(nP)
		ops = append(ops, op{p, fmt.Sprintf("cb%d", r.Intn(4)), int64(16*r.Range(1, s0-1) + res[p])})
	}
	for p := 0; p < nP; p++ {
		for k := r.Range(1, 2); k > 0; k-- {
			ops = append(ops, op{p, kindOf(), T0})
		}
		for k := r.Intn(3); k > 0; k-- {
			ops = append(ops, op{p, kindOf(), int64(16*r.Range(s0+1, s0+6) + res[p])})
		}
	}
	sort.SliceStable(ops, func(i, j int) bool { return ops[i].at < ops[j].at })
	closeS := "-"
	switch r.Intn(4) {
	case 0, 1:
		closeS = fmt.Sprint(T0)
	case 2:
		closeS = fmt.Sprint(16*r.Range(s0+1, s0+8) + 12)
	}
	cstart := int64(16 * r.Range(s0+1, s0+4))
	if r.Intn(3) == 0 {
		cstart = int64(16 * r.Range(0, s0))
	}
	var cdel, sb []string
	for i := r.Range(1, 4); i > 0; i-- {
		cdel = append(cdel, fmt.Sprint(16*r.Range(1, 5)))
	}
	for _, o := range ops {
		sb = append(sb, fmt.Sprintf("%d %s %d", o.p, o.kind, o.at))
	}
	return fmt.Sprintf("c09 K %d close %s cstop - cons %d %s | %s", K, closeS, cstart, strings.Join(cdel, " "), strings.Join(sb, " ; "))
}

func gen(c *hx.Ctx) {
	for i := c.Budget(1500, 20000); i > 0; i-- {
		c.Emit("%s", genTie(c))
		c.Count("class_same-instant")
	}
	classes := []string{"slow", "slow", "fast", "close-mid", "close-mid", "close-tie", "close-tie", "cstop", "close-early"}
	// stress lines: real goroutines on 4 Ps racing for the last free slots, then close (judged by the oracle only)
	rounds := c.Budget(400, 4000)
	for _, cfg := range [][3]int{{1, 1, 2}, {2, 1, 3}, {4, 1, 2}, {1, 0, 2}, {3, 2, 3}, {8, 1, 3}, {2, 2, 3}} {
		for _, cons := range []string{"none", "slow"} {
			c.Emit("stress K %d free %d senders %d rounds %d cons %s", cfg[0], cfg[1], cfg[2], rounds, cons)
			c.Count("stress_lines")
		}
	}
	N := c.Budget(20000, 300000)
	for i := 0; i < N; i++ {
		cl := classes[i%len(classes)]
		c.Emit("%s", genOne(c, cl))
		c.Count("class_" + cl)
	}
}
