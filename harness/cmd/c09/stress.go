package main

import (
	"fmt"
	"runtime"
	"runtime/debug"
	"sort"
	"strconv"
	"strings"
	"sync"
	"sync/atomic"
	"time"

	"github.com/lixianmin/got/taskx"
	"verif/harness/hx"
)

// Stress lines (oracle-only: the model allows every outcome of the race, the driver answers `ok oracle-only`):
//
//	stress K <k> free <f> senders <s> rounds <n> cons <none|slow>
//
// Real goroutines on 4 Ps (still under the fake clock: time.Sleep(1) is a barrier that returns when every goroutine is
// blocked). Per round: a fresh queue of capacity k is pre-filled so that exactly f slots are free; s senders are released
// together from a spin barrier and call SendCallback; barrier; close(closeChan); barrier: every sender must have returned
// by now (a sender that has not is blocked for good: `stuck`). Then the consumer executes everything that is in C.
// Checked per round: no sender stuck after close; every task whose send returned while the queue was open comes out
// of C exactly once; nothing comes out twice; Get2 of an executed task returns what its handler returned.
// Observation: counters over all rounds + the first bad round + the distribution of outcomes
// (a<i> = i senders were accepted before close).
//
// Collections only ever run with one P (with several Ps the collector can hang under the fake clock, see harness/cmd/c04).
func setProcs(n int) {
	if n > 1 {
		debug.SetGCPercent(-1)
	}
	runtime.GOMAXPROCS(n)
	if n <= 1 {
		debug.SetGCPercent(100)
	}
}

func collect() {
	n := runtime.GOMAXPROCS(0)
	if n > 1 {
		runtime.GOMAXPROCS(1)
	}
	runtime.GC()
	time.Sleep(1)
	if n > 1 {
		runtime.GOMAXPROCS(n)
	}
}

func runStress(c *hx.Ctx, w []string) string {
	arg := map[string]string{}
	for i := 1; i+1 < len(w); i += 2 {
		arg[w[i]] = w[i+1]
	}
	K, _ := strconv.Atoi(arg["K"])
	free, _ := strconv.Atoi(arg["free"])
	S, _ := strconv.Atoi(arg["senders"])
	rounds, _ := strconv.Atoi(arg["rounds"])
	slow := arg["cons"] == "slow"
	if K < 1 || free < 0 || free > K || S < 1 || rounds < 1 {
		return "bad-script"
	}
	if S > 3 {
		S = 3 // at most 4 Ps under the fake clock: 3 spinning senders + the controller
	}
	old := runtime.GOMAXPROCS(0)
	setProcs(4)
	defer setProcs(old)

	var stuck, dropped, dup, getWrong, overfull int
	firstBad := ""
	outcomes := map[string]int{}
	for r := 0; r < rounds; r++ {
		cc := make(chan struct{})
		q := taskx.NewQueue(taskx.WithSize(K), taskx.WithCloseChan(cc), taskx.WithErrorLogger(func(string, ...any) {}))
		var mu sync.Mutex
		executed := map[int]int{}
		handler := func(id int) taskx.Handler {
			return func(any) (any, error) {
				mu.Lock()
				executed[id]++
				mu.Unlock()
				return id, nil
			}
		}
		for i := 0; i < K-free; i++ {
			q.SendCallback(handler(1000 + i))
		}
		var gate, arrived int32
		returned := make([]int32, S) // 0 = not yet, 1 = returned while open, 2 = returned after close
		tasks := make([]taskx.Task, S)
		var closed int32
		for i := 0; i < S; i++ {
			i := i
			go func() {
				atomic.AddInt32(&arrived, 1)
				for atomic.LoadInt32(&gate) == 0 {
				}
				t := q.SendCallback(handler(i))
				tasks[i] = t
				if atomic.LoadInt32(&closed) == 0 {
					atomic.StoreInt32(&returned[i], 1)
				} else {
					atomic.StoreInt32(&returned[i], 2)
				}
			}()
		}
		stopCons := make(chan struct{})
		consDone := make(chan struct{})
		if slow {
			go func() {
				defer close(consDone)
				for {
					select {
					case t := <-q.C:
						_ = t.Do(nil)
						time.Sleep(1000)
					case <-stopCons:
						return
					}
				}
			}()
		} else {
			close(consDone)
		}
		for atomic.LoadInt32(&arrived) != int32(S) {
			runtime.Gosched()
		}
		atomic.StoreInt32(&gate, 1)
		time.Sleep(1) // barrier: every sender has returned or is parked
		acc := 0
		for i := 0; i < S; i++ {
			if atomic.LoadInt32(&returned[i]) == 1 {
				acc++
			}
		}
		atomic.StoreInt32(&closed, 1)
		close(cc)
		time.Sleep(1) // barrier: close has released every parked sender
		nStuck := 0
		for i := 0; i < S; i++ {
			if atomic.LoadInt32(&returned[i]) == 0 {
				nStuck++
			}
		}
		close(stopCons)
		<-consDone
		// the consumer executes whatever is in C (this also releases a sender stuck in a plain `C <- task`)
		for k := 0; k < 4*(K+S)+8; k++ {
			select {
			case t := <-q.C:
				_ = t.Do(nil)
			default:
				time.Sleep(1)
			}
		}
		bad := ""
		if nStuck > 0 {
			stuck++
			bad = fmt.Sprintf("stuck:%d", nStuck)
		}
		mu.Lock()
		for i := 0; i < S; i++ {
			if returned[i] == 1 && executed[i] == 0 && nStuck == 0 {
				dropped++
				bad = fmt.Sprintf("dropped:sender%d", i)
			}
		}
		for id, n := range executed {
			if n > 1 {
				dup++
				bad = fmt.Sprintf("twice:%d", id)
			}
		}
		if !slow && acc > free {
			overfull++
			bad = fmt.Sprintf("accepted:%d>free:%d", acc, free)
		}
		for i := 0; i < S; i++ {
			if executed[i] > 0 && tasks[i] != nil {
				if v, e := tasks[i].Get2(); v != any(i) || e != nil {
					getWrong++
					bad = fmt.Sprintf("get2:sender%d=%v", i, v)
				}
			}
		}
		mu.Unlock()
		if bad != "" && firstBad == "" {
			firstBad = fmt.Sprintf("round%d:%s", r, bad)
		}
		outcomes[fmt.Sprintf("a%d", acc)]++
		if r%64 == 63 {
			collect()
		}
	}
	collect()
	c.Stats["stress_rounds"] += rounds
	var keys []string
	for k, n := range outcomes {
		keys = append(keys, k)
		c.Stats["stress_outcome_"+k] += n
	}
	sort.Strings(keys)
	var sb strings.Builder
	for _, k := range keys {
		fmt.Fprintf(&sb, " %s=%d", k, outcomes[k])
	}
	if firstBad == "" {
		firstBad = "-"
	}
	return fmt.Sprintf("stress rounds=%d stuck=%d dropped=%d twice=%d getwrong=%d overfull=%d first=%s outcomes%s",
		rounds, stuck, dropped, dup, getWrong, overfull, firstBad, sb.String())
}
