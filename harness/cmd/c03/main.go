// C03 harness: loom.Wheel timers. Build tags: "verif faketime".
//
// Three kinds of script lines (formats documented in lean/Got/Drv/Wheel.lean):
//
//	race <n> <step> <ops T1> <ops T2> … | <schedule>     controlled scheduler on a wheel without ticker goroutine
//	time <step> <n> | <id>,<t|a>,<at>,<d>[,<delay>/<arg|->]… …   real wheel + ticker under the runtime's virtual clock
//	pure <step> <n> <base> <arg|->                        NewTimer(base); Reset(arg) on a wheel that never ticks
//	huge <n> <step> <pre> <ops>                           sequential requests on a (huge) wheel: tick until the timer is released
//	ctor <step> <n>                                       NewWheel(step, n): panics iff step <= 0 or n <= 0
package main

import (
	"fmt"
	"os"
	"runtime"
	"strconv"
	"strings"

	"verif/harness/hx"
)

func atoi(s string) int {
	v, err := strconv.Atoi(s)
	if err != nil {
		panic("bad number " + s)
	}
	return v
}

func atoi64(s string) int64 {
	v, err := strconv.ParseInt(s, 10, 64)
	if err != nil {
		panic("bad number " + s)
	}
	return v
}

func splitBar(w []string) (head, tail []string) {
	for i, x := range w {
		if x == "|" {
			return w[:i], w[i+1:]
		}
	}
	return w, nil
}

func exec(c *hx.Ctx, line string) string {
	w := strings.Fields(line)
	if len(w) == 0 {
		return "bad-op"
	}
	switch w[0] {
	case "race":
		head, sched := splitBar(w[1:])
		if len(head) < 2 {
			return "bad-op"
		}
		n, step := atoi(head[0]), atoi64(head[1])
		var opss [][]op
		for _, s := range head[2:] {
			opss = append(opss, parseOps(s))
		}
		var sc []int
		for _, s := range sched {
			sc = append(sc, atoi(s))
		}
		r := newRace(n, step, opss)
		for _, t := range sc {
			r.token(t)
		}
		return r.finish()
	case "time":
		head, ps := splitBar(w[1:])
		if len(head) != 2 {
			return "bad-op"
		}
		var progs []prog
		for _, s := range ps {
			progs = append(progs, parseProg(s))
		}
		return runTime(atoi64(head[0]), atoi(head[1]), progs)
	case "pure":
		if len(w) != 5 {
			return "bad-op"
		}
		return runPure(atoi64(w[1]), atoi(w[2]), atoi64(w[3]), w[4])
	case "huge":
		if len(w) != 5 {
			return "bad-op"
		}
		return runHuge(atoi(w[1]), atoi64(w[2]), atoi(w[3]), parseOps(w[4]))
	case "ctor":
		if len(w) != 3 {
			return "bad-op"
		}
		return runCtor(atoi64(w[1]), atoi(w[2]))
	}
	return "bad-op"
}

func main() {
	// The runtime's faketime clock livelocks sporadically with many Ps (observed: GOMAXPROCS=4, all goroutines
	// asleep, clock not advancing); one P is reliable. The controlled scheduler runs one goroutine at a time anyway.
	procs := 1
	if s := os.Getenv("C03_PROCS"); s != "" {
		procs = atoi(s)
	}
	runtime.GOMAXPROCS(procs)
	hx.Main(gen, exec)
}

var _ = fmt.Sprintf
