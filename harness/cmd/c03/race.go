package main

import (
	"fmt"
	"strings"
	"sync/atomic"
	"time"
	"unsafe"

	"github.com/lixianmin/got/loom"
	"verif/harness/csched"
)

// ---- ops of a requester thread

type op struct {
	kind   byte // 'n' NewTimer(d), 'a' AfterFunc(d), 'r' Reset(args…)
	d      int64
	hasArg bool
}

func parseOps(s string) []op {
	var ops []op
	for _, w := range strings.Split(s, ",") {
		if w == "" {
			panic("empty op")
		}
		o := op{kind: w[0]}
		switch w[0] {
		case 'n', 'a':
			o.d = atoi64(w[1:])
		case 'r':
			if len(w) > 1 {
				o.hasArg = true
				o.d = atoi64(w[1:])
			}
		default:
			panic("bad op " + w)
		}
		ops = append(ops, o)
	}
	return ops
}

type opState struct {
	invoked  bool
	done     bool
	panicked bool
	invCls   int
	invAdv   int
	retAdv   int
	retCls   int
	ch       <-chan struct{}
	cb       int32 // AfterFunc: number of callback invocations
	fire     int   // tick that made it ready (0 = not yet)
}

type rthread struct {
	ops []op
	st  []opState
	// shadow of the thread's locals (exploration key only): last position read, last channel read
	lastPos  int64
	lastChan int
}

// ---- one controlled execution

type race struct {
	n       int
	w       *loom.Wheel
	sc      *csched.Sched
	thr     []*rthread // index 0 unused
	log     []string
	adv     int // position stores performed
	cls     int // closes performed
	tsteps  int // ticker steps performed
	stop    bool
	tpanic  string
	posAddr unsafe.Pointer
	slotIdx map[unsafe.Pointer]int
	dataID  map[unsafe.Pointer]int
	chanID  map[<-chan struct{}]int
	chans   []<-chan struct{}
	closed  []int // tick that closed channel id (0 = open)
	blocked bool
	afters  int // AfterFunc ops invoked and not yet fired
}

func (r *race) register(i int) {
	p := atomic.LoadPointer((*unsafe.Pointer)(r.w.VerifSlotAddr(i)))
	if _, ok := r.dataID[p]; ok {
		return
	}
	id := len(r.chans)
	r.dataID[p] = id
	ch := r.w.VerifSlotChan(i)
	r.chanID[ch] = id
	r.chans = append(r.chans, ch)
	r.closed = append(r.closed, 0)
}

func newRace(n int, step int64, opss [][]op) *race {
	r := &race{n: n, slotIdx: map[unsafe.Pointer]int{}, dataID: map[unsafe.Pointer]int{}, chanID: map[<-chan struct{}]int{}}
	r.w = loom.VerifNewWheelNoLoop(time.Duration(step), n)
	r.posAddr = r.w.VerifPosAddr()
	for i := 0; i < n; i++ {
		r.slotIdx[r.w.VerifSlotAddr(i)] = i
		r.register(i)
	}
	r.thr = []*rthread{nil}
	for _, ops := range opss {
		r.thr = append(r.thr, &rthread{ops: ops, st: make([]opState, len(ops))})
	}
	r.sc = csched.New(len(r.thr))
	loom.VerifHook = r.sc.Hook
	r.sc.Start(0, func() {
		defer func() {
			if x := recover(); x != nil {
				r.tpanic = strings.ReplaceAll(fmt.Sprint(x), " ", "_")
			}
		}()
		for !r.stop {
			r.w.VerifTick()
		}
	})
	return r
}

func (r *race) obj(ev csched.Event) string {
	switch ev.Site {
	case loom.VerifWheelLoadPos, loom.VerifWheelStorePos:
		if ev.Ptr == r.posAddr {
			return "p"
		}
	case loom.VerifWheelLoadSlot, loom.VerifWheelStoreSlot:
		if i, ok := r.slotIdx[ev.Ptr]; ok {
			return fmt.Sprintf("s%d", i)
		}
	case loom.VerifWheelClose:
		if id, ok := r.dataID[ev.Ptr]; ok {
			return fmt.Sprintf("c%d", id)
		}
	}
	return "?"
}

// poll every open channel and every outstanding AfterFunc after a close (or a completed request)
func (r *race) poll() {
	for id, ch := range r.chans {
		if r.closed[id] == 0 {
			select {
			case <-ch:
				r.closed[id] = r.cls
			default:
			}
		}
	}
	if r.afters > 0 {
		time.Sleep(1) // virtual clock: returns when every other goroutine is blocked (callbacks have run)
		for _, th := range r.thr[1:] {
			for i := range th.st {
				st := &th.st[i]
				if th.ops[i].kind == 'a' && st.done && st.fire == 0 && atomic.LoadInt32(&st.cb) > 0 {
					st.fire = r.cls
					r.afters--
				}
			}
		}
	}
}

func (r *race) body(t int) func() {
	th := r.thr[t]
	return func() {
		var timer *loom.WheelTimer
		for i := range th.ops {
			o := th.ops[i]
			st := &th.st[i]
			ok := func() (ok bool) {
				defer func() {
					if x := recover(); x != nil {
						st.panicked = true
						ok = false
					}
				}()
				st.invoked = true
				st.invCls, st.invAdv = r.cls, r.adv
				switch o.kind {
				case 'n':
					timer = r.w.NewTimer(time.Duration(o.d))
					st.ch = timer.C
				case 'a':
					r.w.AfterFunc(time.Duration(o.d), func() { atomic.AddInt32(&st.cb, 1) })
					r.afters++
				case 'r':
					if timer == nil {
						panic("reset without timer")
					}
					if o.hasArg {
						timer.Reset(time.Duration(o.d))
					} else {
						timer.Reset()
					}
					st.ch = timer.C
				}
				st.retAdv, st.retCls = r.adv, r.cls
				st.done = true
				return true
			}()
			if !ok {
				return
			}
		}
	}
}

func (r *race) finished(t int) bool {
	return r.sc.Pending(t).Done || r.sc.Pending(t).Blocked
}

func (r *race) started(t int) bool {
	ev := r.sc.Pending(t)
	return ev.Done || ev.Blocked || ev.Site != 0
}

// token: let thread t perform one step (0 = ticker). Tokens of finished threads are ignored.
func (r *race) token(t int) {
	if t < 0 || t >= len(r.thr) {
		return
	}
	if t == 0 {
		pend := r.sc.Pending(0)
		if pend.Done || pend.Blocked {
			return
		}
		r.log = append(r.log, fmt.Sprintf("0.%d.%s", pend.Site, r.obj(pend)))
		ev := r.sc.Step(0)
		r.tsteps++
		if ev.Blocked {
			r.blocked = true
		}
		switch pend.Site {
		case loom.VerifWheelStorePos:
			r.adv++
		case loom.VerifWheelStoreSlot:
			if i, ok := r.slotIdx[pend.Ptr]; ok {
				r.register(i)
			}
		case loom.VerifWheelClose:
			r.cls++
			r.poll()
		}
		return
	}
	if !r.started(t) {
		r.log = append(r.log, fmt.Sprintf("%d.start", t))
		ev := r.sc.Start(t, r.body(t))
		if ev.Blocked {
			r.blocked = true
		}
		r.poll()
		return
	}
	if r.finished(t) {
		return
	}
	pend := r.sc.Pending(t)
	r.log = append(r.log, fmt.Sprintf("%d.%d.%s", t, pend.Site, r.obj(pend)))
	switch pend.Site {
	case loom.VerifWheelLoadPos:
		r.thr[t].lastPos = atomic.LoadInt64((*int64)(r.posAddr))
	case loom.VerifWheelLoadSlot:
		r.thr[t].lastChan = r.dataID[atomic.LoadPointer((*unsafe.Pointer)(pend.Ptr))]
	}
	ev := r.sc.Step(t)
	if ev.Blocked {
		r.blocked = true
	}
	r.poll()
}

func (r *race) allFired() bool {
	for _, th := range r.thr[1:] {
		for i := range th.st {
			st := &th.st[i]
			if !st.done {
				continue
			}
			if th.ops[i].kind == 'a' {
				if st.fire == 0 {
					return false
				}
			} else if id, ok := r.chanID[st.ch]; !ok || r.closed[id] == 0 {
				return false
			}
		}
	}
	return true
}

// enabled threads (for the exhaustive exploration): ticker while it has budget, every unfinished requester
func (r *race) enabled(maxTickerSteps int) []int {
	var e []int
	if r.tsteps < maxTickerSteps && !r.sc.Pending(0).Done {
		e = append(e, 0)
	}
	for t := 1; t < len(r.thr); t++ {
		if !r.started(t) || !r.finished(t) {
			e = append(e, t)
		}
	}
	return e
}

// key: the joint state of the real system as far as it determines the future and the results
// (ticker progress determines position, slots and closed channels; per requester: program counter, locals,
// counters taken at invocation, results so far)
func (r *race) key() string {
	var sb strings.Builder
	fmt.Fprintf(&sb, "%d", r.tsteps)
	for t := 1; t < len(r.thr); t++ {
		th := r.thr[t]
		pend := r.sc.Pending(t)
		fmt.Fprintf(&sb, "|%v,%v,%d,%s", r.started(t), r.started(t) && r.finished(t), pend.Site, r.obj(pend))
		if pend.Site == loom.VerifWheelLoadSlot || pend.Site == loom.VerifWheelLoadPos {
			fmt.Fprintf(&sb, ",%d,%d", th.lastPos, th.lastChan)
		}
		for i := range th.st {
			st := &th.st[i]
			if st.invoked {
				fmt.Fprintf(&sb, ";%d/%d", st.invCls, st.invAdv)
			}
			if st.done {
				fmt.Fprintf(&sb, ":%d,%d", st.retAdv, r.chanID[st.ch])
			}
			if st.panicked {
				sb.WriteString("P")
			}
		}
	}
	return sb.String()
}

// finish: tail policy (mirrored by the driver), results, clean-up.
func (r *race) finish() string {
	r.log = append(r.log, "/")
	for t := 1; t < len(r.thr); t++ {
		for k := 0; k < 100000 && !(r.started(t) && r.finished(t)); k++ {
			r.token(t)
		}
	}
	for k := 0; k < 4*(2*r.n+4) && !r.allFired(); k++ {
		if r.sc.Pending(0).Done {
			break
		}
		r.token(0)
	}
	var res []string
	for t := 1; t < len(r.thr); t++ {
		th := r.thr[t]
		for i := range th.st {
			st := &th.st[i]
			switch {
			case st.panicked:
				res = append(res, fmt.Sprintf("T%d.%d=P", t, i))
			case st.done:
				cs, fire := "c-", st.fire
				if th.ops[i].kind != 'a' {
					id, ok := r.chanID[st.ch]
					if ok {
						cs = fmt.Sprintf("c%d", id)
						fire = r.closed[id]
					} else {
						cs = "c?"
					}
				}
				fs := "never"
				if fire > 0 {
					fs = fmt.Sprint(fire)
				}
				res = append(res, fmt.Sprintf("T%d.%d=i%d/%d,r%d/%d,%s,f%s", t, i, st.invCls, st.invAdv, st.retCls, st.retAdv, cs, fs))
			}
		}
	}
	// clean-up (not logged): let the ticker finish its current tick and exit
	r.stop = true
	for k := 0; k < 16 && !r.sc.Pending(0).Done && !r.sc.Pending(0).Blocked; k++ {
		r.sc.Step(0)
	}
	loom.VerifHook = nil
	out := strings.Join(r.log, " ") + " | " + strings.Join(res, " ")
	if r.tpanic != "" {
		out += " tickerpanic=" + r.tpanic
	}
	if r.blocked {
		out += " blocked"
	}
	return out
}

// abort: clean-up of an exploration run that is not finished
func (r *race) abort() {
	r.stop = true
	for t := 1; t < len(r.thr); t++ {
		for k := 0; k < 100000 && r.started(t) && !r.finished(t); k++ {
			r.sc.Step(t)
		}
	}
	for k := 0; k < 16 && !r.sc.Pending(0).Done && !r.sc.Pending(0).Blocked; k++ {
		r.sc.Step(0)
	}
	loom.VerifHook = nil
}

// ---- pure part: NewTimer(base) then Reset(arg) on a wheel that never ticks; the slot read at position 0 is the index

var pureWheel struct {
	step int64
	n    int
	w    *loom.Wheel
}

func runPure(step int64, n int, base int64, arg string) string {
	// the wheel never ticks and requests do not modify it: reuse it for consecutive lines with the same config
	if pureWheel.w == nil || pureWheel.step != step || pureWheel.n != n {
		pureWheel.step, pureWheel.n, pureWheel.w = step, n, loom.VerifNewWheelNoLoop(time.Duration(step), n)
	}
	w := pureWheel.w
	slot0 := uintptr(w.VerifSlotAddr(0))
	idx := -1
	loom.VerifHook = func(site int, p unsafe.Pointer) {
		if site == loom.VerifWheelLoadSlot {
			idx = int((uintptr(p) - slot0) / unsafe.Sizeof(p))
		}
	}
	defer func() { loom.VerifHook = nil }()
	try := func(f func()) (s string) {
		defer func() {
			if x := recover(); x != nil {
				s = "P"
			}
		}()
		idx = -1
		f()
		return fmt.Sprintf("k%d", idx)
	}
	var timer *loom.WheelTimer
	a := try(func() { timer = w.NewTimer(time.Duration(base)) })
	if a == "P" {
		return "new=P reset=-"
	}
	b := try(func() {
		if arg == "-" {
			timer.Reset()
		} else {
			timer.Reset(time.Duration(atoi64(arg)))
		}
	})
	return fmt.Sprintf("new=%s reset=%s", a, b)
}

// runHuge: sequential requests (no interleaving) on a wheel of any size: `pre` whole ticks, then every op followed by
// ticks until the timer's channel is closed (at most n+2); reports the ticks complete at the call and the closing tick.
func runHuge(n int, step int64, pre int, ops []op) string {
	loom.VerifHook = nil
	w := loom.VerifNewWheelNoLoop(time.Duration(step), n)
	ticks := 0
	for ; ticks < pre; ticks++ {
		w.VerifTick()
	}
	var out []string
	var timer *loom.WheelTimer
	for i, o := range ops {
		L := ticks
		panicked := func() (p bool) {
			defer func() {
				if x := recover(); x != nil {
					p = true
				}
			}()
			switch o.kind {
			case 'n':
				timer = w.NewTimer(time.Duration(o.d))
			case 'r':
				if o.hasArg {
					timer.Reset(time.Duration(o.d))
				} else {
					timer.Reset()
				}
			default:
				panic("huge: unsupported op")
			}
			return false
		}()
		if panicked {
			out = append(out, fmt.Sprintf("%d=P", i))
			break
		}
		fire := 0
		for k := 0; k < n+2 && fire == 0; k++ {
			w.VerifTick()
			ticks++
			select {
			case <-timer.C:
				fire = ticks
			default:
			}
		}
		if fire == 0 {
			out = append(out, fmt.Sprintf("%d=L%d,fnever", i, L))
			break
		}
		out = append(out, fmt.Sprintf("%d=L%d,f%d", i, L, fire))
	}
	return strings.Join(out, " ")
}
