package main

import (
	"fmt"
	"os"
	"strings"

	"verif/harness/hx"
)

func opsString(ops []op) string {
	var s []string
	for _, o := range ops {
		switch {
		case o.kind == 'r' && !o.hasArg:
			s = append(s, "r")
		default:
			s = append(s, fmt.Sprintf("%c%d", o.kind, o.d))
		}
	}
	return strings.Join(s, ",")
}

func raceLine(n int, step int64, opss [][]op, sched []int) string {
	var sb strings.Builder
	fmt.Fprintf(&sb, "race %d %d", n, step)
	for _, ops := range opss {
		sb.WriteString(" " + opsString(ops))
	}
	sb.WriteString(" |")
	for _, t := range sched {
		fmt.Fprintf(&sb, " %d", t)
	}
	return sb.String()
}

// explore: interleavings of the requesters with at most maxTicks ticks of the ticker, after a solo prefix
// (`pre` whole ticks). Stateless depth-first search by re-execution on the real code: the set of enabled
// threads after a prefix is taken from the implementation itself (so a mutant with a different number of
// accesses is still explored completely).
//   dedup = false: every interleaving; each maximal schedule is one script line.
//   dedup = true : every reachable joint state and every transition between joint states (race.key) is
//                  visited; a schedule is emitted at every leaf and at every transition into a known state.
func explore(c *hx.Ctx, class string, n int, step int64, opss [][]op, pre, maxTicks int, dedup bool) int {
	prefix := make([]int, 0, 64)
	for i := 0; i < 4*pre; i++ {
		prefix = append(prefix, 0)
	}
	budget := 4 * (pre + maxTicks)
	count := 0
	visited := map[string]bool{}
	var rec func(sched []int)
	rec = func(sched []int) {
		r := newRace(n, step, opss)
		for _, t := range sched {
			r.token(t)
		}
		en := r.enabled(budget)
		key := r.key()
		r.abort()
		// only the ticker left: the rest is the deterministic tail
		reqLeft := false
		for _, t := range en {
			if t != 0 {
				reqLeft = true
			}
		}
		if !reqLeft || (dedup && visited[key]) {
			c.Emit("%s", raceLine(n, step, opss, sched))
			c.Count(class)
			count++
			return
		}
		visited[key] = true
		for _, t := range en {
			rec(append(append([]int{}, sched...), t))
		}
	}
	rec(prefix)
	if os.Getenv("C03_DEBUG") != "" {
		fmt.Fprintf(os.Stderr, "%s n=%d %s pre=%d ticks=%d: %d schedules, %d states\n", class, n, raceLine(n, step, opss, nil), pre, maxTicks, count, len(visited))
	}
	return count
}

func nop(d int64) []op { return []op{{kind: 'n', d: d}} }

func genRace(c *hx.Ctx) {
	const step = 10
	// (E1) one tick x one request, every n in 1..4, every bucket offset (d = q*step, q = 0..n-1; q=0 and q=1 share k=0,
	//      plus one sub-step interval), every wheel phase (pre = 0..n whole ticks before).
	//      thorough: ALL interleavings; quick: every joint state and transition
	e1 := "race_cover_1tick_1req"
	if c.Thorough() {
		e1 = "race_all_1tick_1req"
	}
	for n := 1; n <= 4; n++ {
		for q := 0; q < n; q++ {
			for pre := 0; pre <= n; pre++ {
				explore(c, e1, n, step, [][]op{nop(int64(q) * step)}, pre, 1, !c.Thorough())
			}
		}
		explore(c, e1, n, step, [][]op{nop(step - 1)}, 0, 1, !c.Thorough())
	}
	// (E2) up to n+1 ticks (thorough: 2n+1) x one request, n in 1..4 (thorough: 1..5), every offset: every joint
	//      state and transition
	for n := 1; n <= c.Budget(4, 5); n++ {
		for q := 0; q < n; q++ {
			if !c.Thorough() && n == 4 && (q == 1 || q == 2) {
				continue // quick: smallest and largest offset only on the 4-bucket wheel
			}
			explore(c, "race_cover_ticks_1req", n, step, [][]op{nop(int64(q) * step)}, 0, c.Budget(n+1, 2*n+1), true)
		}
	}
	// (E3) two requests x 1 tick (thorough: 2 ticks, n <= 4), every pair of offsets: every joint state and transition
	for n := 1; n <= c.Budget(3, 4); n++ {
		ticks := 1
		if c.Thorough() {
			ticks = 2
		}
		for q1 := 0; q1 < n; q1++ {
			for q2 := q1; q2 < n; q2++ {
				if !c.Thorough() && n == 3 && q1 == q2 && q1 > 0 {
					continue // quick: equal offsets only for k = 0 on the 3-bucket wheel
				}
				explore(c, "race_cover_2req", n, step, [][]op{nop(int64(q1) * step), nop(int64(q2) * step)}, 1, ticks, true)
			}
		}
	}
	// (E4) Reset chain / AfterFunc overlapping ticks
	for n := 1; n <= 3; n++ {
		explore(c, "race_cover_reset_chain", n, step, [][]op{{{kind: 'n', d: 0}, {kind: 'r'}, {kind: 'r', hasArg: true, d: int64(n-1) * step}}}, 0, c.Budget(2, n+1), true)
		explore(c, "race_cover_afterfunc", n, step, [][]op{{{kind: 'a', d: int64(n-1) * step}}}, 0, 2, true)
	}
	// (R) random: n in 1..8, 1..4 requesters with op chains (NewTimer/AfterFunc/Reset, in- and out-of-range intervals),
	//     random schedules with bursts (a thread keeps the processor with probability 1/2) and ticker-heavy phases
	K := c.Budget(1500, 40000)
	for i := 0; i < K; i++ {
		n := c.Rng.Range(1, 8)
		if c.Rng.Intn(4) == 0 {
			n = c.Rng.Range(1, 3)
		}
		st := int64(c.Rng.Pick([]int{1, 3, 10, 1000}))
		nt := c.Rng.Range(1, 4)
		var opss [][]op
		for t := 0; t < nt; t++ {
			opss = append(opss, randOps(c.Rng, st, n))
		}
		L := c.Rng.Range(4, 70)
		var sched []int
		cur := c.Rng.Intn(nt + 1)
		tickBias := c.Rng.Intn(3) // 0: uniform, 1: ticker heavy, 2: requester heavy
		for len(sched) < L {
			if !c.Rng.Bool() {
				switch {
				case tickBias == 1 && c.Rng.Bool():
					cur = 0
				case tickBias == 2 && c.Rng.Bool():
					cur = c.Rng.Range(1, nt)
				default:
					cur = c.Rng.Intn(nt + 1)
				}
			}
			sched = append(sched, cur)
		}
		c.Emit("%s", raceLine(n, st, opss, sched))
		c.Count("race_random")
	}
}

func randInterval(r *hx.Rng, st int64, n int) int64 {
	max := st * int64(n)
	switch r.Intn(12) {
	case 0:
		return 0
	case 1:
		return max - 1
	case 2:
		return max // panics
	case 3:
		return -1 // panics
	case 4:
		return st - 1
	case 5:
		return st
	default:
		q := int64(r.Intn(n))
		off := int64(0)
		switch r.Intn(4) {
		case 0:
			off = 0
		case 1:
			off = st - 1
		case 2:
			off = st / 2
		default:
			off = int64(r.Intn(int(st)))
		}
		return q*st + off
	}
}

func randOps(r *hx.Rng, st int64, n int) []op {
	var ops []op
	if r.Intn(5) == 0 {
		return []op{{kind: 'a', d: randInterval(r, st, n)}}
	}
	ops = append(ops, op{kind: 'n', d: randInterval(r, st, n)})
	for r.Intn(3) == 0 && len(ops) < 4 {
		if r.Bool() {
			ops = append(ops, op{kind: 'r'})
		} else {
			ops = append(ops, op{kind: 'r', hasArg: true, d: randInterval(r, st, n)})
		}
	}
	return ops
}

func genPure(c *hx.Ctx) {
	for _, st := range []int64{-1000000, -1, 0, 1, 1000000} {
		for _, n := range []int{-64, -1, 0, 1, 2, 64} {
			c.Emit("ctor %d %d", st, n)
			c.Count("ctor")
		}
	}
	// exhaustive small: step 1..3, n 1..4, base and arg over [-1, step*n+1]
	for st := int64(1); st <= 3; st++ {
		for n := 1; n <= 4; n++ {
			max := st * int64(n)
			for base := int64(-1); base <= max+1; base++ {
				c.Emit("pure %d %d %d -", st, n, base)
				c.Count("pure_exhaustive")
				for arg := int64(-1); arg <= max+1; arg++ {
					c.Emit("pure %d %d %d %d", st, n, base, arg)
					c.Count("pure_exhaustive")
				}
			}
		}
	}
	// boundaries for realistic steps
	for _, st := range []int64{7, 1000, 1000000, 1000000000} {
		for _, n := range []int{1, 2, 3, 8, 64} {
			var vals []int64
			for q := int64(0); q <= int64(n); q++ {
				if n > 8 && q > 2 && q < int64(n)-2 && c.Rng.Intn(8) != 0 {
					continue
				}
				vals = append(vals, q*st-1, q*st, q*st+1)
			}
			vals = append(vals, st/2, st*int64(n)+st, -st)
			for _, base := range vals {
				c.Emit("pure %d %d %d -", st, n, base)
				c.Count("pure_boundary")
				for k := 0; k < 4; k++ {
					c.Emit("pure %d %d %d %d", st, n, base, vals[c.Rng.Intn(len(vals))])
					c.Count("pure_boundary")
				}
			}
		}
	}
}

// ---- virtual-time scenarios

func progString(p prog) string {
	k := "t"
	if p.after {
		k = "a"
	}
	s := fmt.Sprintf("%s,%s,%d,%d", p.id, k, p.at, p.d)
	for _, r := range p.resets {
		if r.hasArg {
			s += fmt.Sprintf(",%d/%d", r.delay, r.arg)
		} else {
			s += fmt.Sprintf(",%d/-", r.delay)
		}
	}
	return s
}

func emitTime(c *hx.Ctx, class string, st int64, n int, progs []prog) {
	var s []string
	for i := range progs {
		progs[i].id = fmt.Sprint(i)
		s = append(s, progString(progs[i]))
	}
	c.Emit("time %d %d | %s", st, n, strings.Join(s, " "))
	c.Count(class)
	c.Stats["time_programs"] += len(progs)
	for _, p := range progs {
		c.Stats["time_resets"] += len(p.resets)
		if p.after {
			c.Stats["time_afterfunc"]++
		}
		if p.at > 0 && p.at%st == 0 {
			c.Stats["time_request_at_tick_instant"]++
		}
		if p.d < 0 || p.d >= st*int64(n) {
			c.Stats["time_out_of_range"]++
		}
		c.Stats[fmt.Sprintf("time_buckets_%d", n)]++
	}
}

func phaseOf(r *hx.Rng, st int64) int64 {
	switch r.Intn(6) {
	case 0:
		return 0
	case 1:
		return 1
	case 2:
		return st / 2
	case 3:
		return st - 1
	default:
		return int64(r.U64() % uint64(st))
	}
}

func durOf(r *hx.Rng, st int64, n int) int64 {
	max := st * int64(n)
	switch r.Intn(10) {
	case 0:
		return 0
	case 1:
		return 1
	case 2:
		return max - 1
	default:
		q := int64(r.Intn(n))
		var off int64
		switch r.Intn(5) {
		case 0:
			off = 0
		case 1:
			off = 1
		case 2:
			off = st - 1
		case 3:
			off = st / 2
		default:
			off = int64(r.U64() % uint64(st))
		}
		d := q*st + off
		if d >= max {
			d = max - 1
		}
		return d
	}
}

func genTime(c *hx.Ctx) {
	steps := []int64{1000000, 10000000, 1000000000}
	ns := []int{1, 2, 3, 8, 64}
	// (T1) systematic: every bucket count d/s, offsets {0,1,s-1}, phases {0,1,s/2,s-1} (thorough: 16 phases),
	//      request in tick period j in {0,1,n-1,n,n+1}; programs of one (s,n) packed 64 per scenario (shared buckets)
	for _, st := range steps {
		for _, n := range ns {
			phases := []int64{0, 1, st / 2, st - 1}
			if c.Thorough() && n <= 8 {
				phases = nil
				for i := int64(0); i < 16; i++ {
					phases = append(phases, i*st/16)
				}
				phases = append(phases, 1, st-1)
			}
			js := []int64{0, 1, int64(n) - 1, int64(n), int64(n) + 1}
			var batch []prog
			flush := func() {
				if len(batch) > 0 {
					emitTime(c, "time_systematic", st, n, batch)
					batch = nil
				}
			}
			for q := int64(0); q < int64(n); q++ {
				if n > 8 && q > 2 && q < int64(n)-2 && q%9 != 0 {
					continue
				}
				for _, off := range []int64{0, 1, st - 1} {
					for _, ph := range phases {
						for _, j := range js {
							if j < 0 {
								continue
							}
							batch = append(batch, prog{at: j*st + ph, d: q*st + off, after: (q+j)%5 == 4})
							if len(batch) == 64 {
								flush()
							}
						}
					}
				}
			}
			flush()
		}
	}
	// (T1b) same-instant class: 5..9 requests (NewTimer / AfterFunc, different goroutines) issued at ONE virtual
	//       instant — in two scenarios out of three exactly at a tick instant, where each of them may be ordered before
	//       or after the tick independently — with Reset chains whose delays make the Resets coincide again
	//       (zero delay out of the fire, or a common delay landing on / off a tick instant).
	S := c.Budget(60, 1200)
	for i := 0; i < S; i++ {
		st := steps[c.Rng.Intn(len(steps))]
		n := ns[c.Rng.Intn(4)]
		if c.Rng.Intn(8) == 0 {
			n = 64
		}
		at := int64(c.Rng.Range(1, 2*n+1)) * st
		if i%3 == 2 {
			at = int64(c.Rng.Intn(2*n+1))*st + phaseOf(c.Rng, st)
		}
		np := c.Rng.Range(5, 9)
		common := rst{delay: int64(c.Rng.Intn(3)) * st}
		if c.Rng.Bool() {
			common.delay += phaseOf(c.Rng, st)
		}
		sameD := durOf(c.Rng, st, n)
		var progs []prog
		for k := 0; k < np; k++ {
			p := prog{at: at, d: durOf(c.Rng, st, n)}
			if c.Rng.Intn(3) == 0 {
				p.d = sameD // same bucket, same fire instant: the Resets coincide again
			}
			switch c.Rng.Intn(4) {
			case 0:
				p.after = true
			case 1:
				p.resets = []rst{{delay: 0}, common}
			case 2:
				p.resets = []rst{common, {delay: 0}}
			default:
				p.resets = []rst{common}
			}
			progs = append(progs, p)
		}
		emitTime(c, "time_same_instant", st, n, progs)
		c.Stats["time_same_instant_requests"] += np
		if at%st == 0 {
			c.Stats["time_same_instant_at_tick"]++
		}
	}
	// (T2) random scenarios: 1..64 concurrent programs, Reset chains with delays on and off tick instants,
	//      Reset arguments below step (ignored), in range, and out of range (panic); AfterFunc; range panics
	K := c.Budget(3000, 40000)
	for i := 0; i < K; i++ {
		st := steps[c.Rng.Intn(len(steps))]
		n := ns[c.Rng.Intn(len(ns))]
		if n == 64 && c.Rng.Intn(3) != 0 {
			n = ns[c.Rng.Intn(4)]
		}
		np := c.Rng.Range(1, 8)
		if c.Rng.Intn(6) == 0 {
			np = c.Rng.Range(32, 64)
		}
		var progs []prog
		for k := 0; k < np; k++ {
			p := prog{at: int64(c.Rng.Intn(2*n+2))*st + phaseOf(c.Rng, st), d: durOf(c.Rng, st, n)}
			switch c.Rng.Intn(10) {
			case 0:
				p.after = true
			case 1: // out of range
				p.d = []int64{-1, st * int64(n), st*int64(n) + 1, -st}[c.Rng.Intn(4)]
			default:
				for c.Rng.Intn(2) == 0 && len(p.resets) < 4 {
					r := rst{}
					switch c.Rng.Intn(5) {
					case 0, 1:
						r.delay = 0
					case 2:
						r.delay = int64(c.Rng.Intn(3)) * st // lands on a tick instant
					default:
						r.delay = int64(c.Rng.Intn(2))*st + phaseOf(c.Rng, st)
					}
					switch c.Rng.Intn(6) {
					case 0:
						r.hasArg, r.arg = true, st-1 // ignored
					case 1:
						r.hasArg, r.arg = true, st
					case 2:
						r.hasArg, r.arg = true, durOf(c.Rng, st, n)
					case 3:
						if c.Rng.Intn(3) == 0 {
							r.hasArg, r.arg = true, st*int64(n) // panics (unless n = 1 … then also: >= maxTimeout)
						}
					}
					p.resets = append(p.resets, r)
				}
			}
			progs = append(progs, p)
		}
		emitTime(c, "time_random", st, n, progs)
	}
}

// genHuge: huge wheels (a size class of its own: ring sizes around 2^16 and beyond), sequential requests only.
func genHuge(c *hx.Ctx) {
	sizes := []int{65535, 65536, 65537, 70000, 131072, 200000}
	emit := func(class string, n int, st int64, pre int, ops []op) {
		c.Emit("huge %d %d %d %s", n, st, pre, opsString(ops))
		c.Count(class)
	}
	bounds := func(n int, st int64) []int64 {
		N := int64(n)
		return []int64{0, st, (N-1)*st - 1, (N - 1) * st, N*st - 1, (N / 2) * st, 65535 * st, 65536 * st, 65537 * st, 65538*st - 1}
	}
	inRange := func(n int, st int64, d int64) bool { return d >= 0 && d < int64(n)*st }
	// small wheels through the same code path (the driver cross-checks its closed form against the LTS here)
	for _, n := range []int{1, 2, 3, 8} {
		for pre := 0; pre <= 3; pre++ {
			var ops []op
			ops = append(ops, op{kind: 'n', d: int64(n-1) * 10})
			for q := 0; q < n; q++ {
				ops = append(ops, op{kind: 'r', hasArg: true, d: int64(q)*10 + int64(q%2)*9})
			}
			ops = append(ops, op{kind: 'r'}, op{kind: 'r', hasArg: true, d: int64(n) * 10})
			emit("huge_small_crosscheck", n, 10, pre, ops)
		}
	}
	for _, n := range sizes {
		st := int64(1000)
		bs := bounds(n, st)
		if !c.Thorough() {
			// quick: one chain per size with the most telling boundaries (longest interval, ring-size boundaries)
			var ops []op
			ops = append(ops, op{kind: 'n', d: int64(n)*st - 1})
			for _, d := range []int64{65537 * st, 65536 * st, 0} {
				if inRange(n, st, d) {
					ops = append(ops, op{kind: 'r', hasArg: true, d: d})
				}
			}
			ops = append(ops, op{kind: 'r', hasArg: true, d: int64(n) * st}) // out of range: panics
			emit("huge_boundary", n, st, c.Rng.Intn(3), ops)
			for _, d := range bs {
				if inRange(n, st, d) {
					emit("huge_boundary", n, st, c.Rng.Intn(4), []op{{kind: 'n', d: d}})
				}
			}
			continue
		}
		// thorough: every boundary as NewTimer and as Reset argument, at several wheel phases, plus random intervals
		for _, pre := range []int{0, 1, n - 1, n, n + 1, 65536} {
			var ops []op
			first := bs[c.Rng.Intn(len(bs))]
			if !inRange(n, st, first) {
				first = int64(n)*st - 1
			}
			ops = append(ops, op{kind: 'n', d: first})
			for k := 0; k < 3; k++ {
				d := bs[c.Rng.Intn(len(bs))]
				if inRange(n, st, d) {
					ops = append(ops, op{kind: 'r', hasArg: true, d: d})
				}
			}
			ops = append(ops, op{kind: 'r'})
			emit("huge_boundary", n, st, pre, ops)
		}
		for _, d := range bs {
			if inRange(n, st, d) {
				emit("huge_boundary", n, st, c.Rng.Intn(4), []op{{kind: 'n', d: d}})
			} else {
				emit("huge_out_of_range", n, st, 0, []op{{kind: 'n', d: d}})
			}
		}
		for i := 0; i < 6; i++ {
			st2 := int64(c.Rng.Pick([]int{1, 7, 1000000}))
			var ops []op
			ops = append(ops, op{kind: 'n', d: int64(c.Rng.U64() % uint64(int64(n)*st2))})
			for k := 0; k < 2; k++ {
				ops = append(ops, op{kind: 'r', hasArg: true, d: int64(c.Rng.U64() % uint64(int64(n)*st2))})
			}
			emit("huge_random", n, st2, c.Rng.Intn(n), ops)
		}
	}
	// range check / bucket index / constructor on huge wheels (cheap: the wheel never ticks)
	for _, n := range sizes {
		for _, st := range []int64{1, 1000, 1000000000} {
			bs := bounds(n, st)
			bs = append(bs, int64(n)*st, int64(n)*st+1, -1)
			for _, base := range bs {
				arg := "-"
				if c.Rng.Bool() {
					arg = fmt.Sprint(bs[c.Rng.Intn(len(bs))])
				}
				c.Emit("pure %d %d %d %s", st, n, base, arg)
				c.Count("pure_huge")
			}
		}
	}
	for _, n := range []int{65536, 65537, 200000} {
		c.Emit("ctor %d %d", 1000000, n)
		c.Count("ctor")
	}
}

func gen(c *hx.Ctx) {
	only := os.Getenv("C03_ONLY") // debugging aid: pure | race | time
	if only == "" || only == "pure" {
		genPure(c)
	}
	if only == "" || only == "huge" {
		genHuge(c)
	}
	if only == "" || only == "race" {
		genRace(c)
	}
	if only == "" || only == "time" {
		genTime(c)
	}
}
