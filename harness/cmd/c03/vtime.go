package main

import (
	"fmt"
	"strings"
	"sync"
	"sync/atomic"
	"time"

	"github.com/lixianmin/got/loom"
)

// A program = one timer (or AfterFunc) armed at virtual instant `at` (ns after wheel creation) followed by a
// chain of Resets, each issued `delay` ns after the previous fire.

type rst struct {
	delay  int64
	hasArg bool
	arg    int64
}

type prog struct {
	id     string
	after  bool
	at     int64
	d      int64
	resets []rst
}

func parseProg(s string) prog {
	f := strings.Split(s, ",")
	if len(f) < 4 {
		panic("bad prog " + s)
	}
	p := prog{id: f[0], after: f[1] == "a", at: atoi64(f[2]), d: atoi64(f[3])}
	for _, r := range f[4:] {
		x := strings.Split(r, "/")
		if len(x) != 2 {
			panic("bad reset " + r)
		}
		q := rst{delay: atoi64(x[0])}
		if x[1] != "-" {
			q.hasArg = true
			q.arg = atoi64(x[1])
		}
		p.resets = append(p.resets, q)
	}
	return p
}

func try(f func()) (panicked bool) {
	defer func() {
		if x := recover(); x != nil {
			panicked = true
		}
	}()
	f()
	return false
}

func runProg(w *loom.Wheel, t0 time.Time, step int64, n int, p prog, done <-chan struct{}) []string {
	var out []string
	if p.at > 0 {
		time.Sleep(time.Duration(p.at))
	}
	if p.after {
		var cnt int32
		var first int64
		sig := make(chan struct{}, 1)
		if try(func() {
			w.AfterFunc(time.Duration(p.d), func() {
				if atomic.AddInt32(&cnt, 1) == 1 {
					atomic.StoreInt64(&first, int64(time.Since(t0)))
					sig <- struct{}{}
				}
			})
		}) {
			return []string{"P"}
		}
		select {
		case <-sig:
		case <-done:
			return []string{"N"}
		}
		// exactly once: a second invocation would have to come from a later tick
		time.Sleep(time.Duration(int64(n+1) * step))
		s := fmt.Sprint(atomic.LoadInt64(&first))
		if c := atomic.LoadInt32(&cnt); c != 1 {
			s += fmt.Sprintf("x%d", c)
		}
		return []string{s}
	}
	var timer *loom.WheelTimer
	if try(func() { timer = w.NewTimer(time.Duration(p.d)) }) {
		return []string{"P"}
	}
	for i := 0; ; i++ {
		select {
		case <-timer.C:
			out = append(out, fmt.Sprint(int64(time.Since(t0))))
		case <-done:
			return append(out, "N")
		}
		if i >= len(p.resets) {
			return out
		}
		r := p.resets[i]
		if r.delay > 0 {
			time.Sleep(time.Duration(r.delay))
		}
		if try(func() {
			if r.hasArg {
				timer.Reset(time.Duration(r.arg))
			} else {
				timer.Reset()
			}
		}) {
			return append(out, "P")
		}
	}
}

func runTime(step int64, n int, progs []prog) string {
	w := loom.NewWheel(time.Duration(step), n)
	t0 := time.Now()
	done := make(chan struct{})
	res := make([][]string, len(progs))
	var wg sync.WaitGroup
	var deadline int64
	for _, p := range progs {
		d := p.at + int64(n+2)*step*int64(len(p.resets)+2)
		for _, r := range p.resets {
			d += r.delay
		}
		if d > deadline {
			deadline = d
		}
	}
	for i := range progs {
		wg.Add(1)
		go func(i int) {
			defer wg.Done()
			res[i] = runProg(w, t0, step, n, progs[i], done)
		}(i)
	}
	tm := time.AfterFunc(time.Duration(deadline), func() { close(done) })
	wg.Wait()
	tm.Stop()
	_ = w.Close()
	time.Sleep(1) // let the wheel's goroutine stop its ticker before the next scenario
	var sb []string
	for i, p := range progs {
		sb = append(sb, p.id+"="+strings.Join(res[i], ","))
	}
	return strings.Join(sb, " ")
}

// runCtor: NewWheel(step, n) — panics iff step <= 0 or n <= 0
func runCtor(step int64, n int) string {
	var w *loom.Wheel
	if try(func() { w = loom.NewWheel(time.Duration(step), n) }) {
		return "P"
	}
	_ = w.Close()
	time.Sleep(1)
	return "ok"
}
