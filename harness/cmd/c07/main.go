//go:build verif && faketime

// C07/C08 harness: virtual-time scenarios on the real ants pool (build tags "verif faketime").
//
// script line:   n <N> [old] [park <site>:<ordinal>:<until>]* | <task> ; <task> ; ...
//   task      =  <g> <time> <T> <R> <discard 0/1> <cb 0/1> <beh>,<beh>,...
//   beh       =  <dur>:<hon 0/1>:<val>:<errcode>   behaviour of the j-th handler invocation of that task
//   park s:o:u = the o-th call of ants.VerifHook(site s), s in 1..4, in this scenario blocks until instant u
//                (1 inner before its CAS, 2 dispatcher in the ctx.Done branch, 3 dispatcher before its select,
//                 4 inner after winning the CAS, before publishing)
// All times are ns of virtual time relative to the scenario start. The flag `old` is for the model only
// (pre-fix variant); the harness ignores it.
//
// observation (one line): per task, in script order, separated by " ; ":
//   len=<len(taskChan) right before Send> acc|dis ret=<Send returned> inv=[begin:start:end:val:err|...]
//   onerr=[err@t,...] get=<val>:<err>@<t> get2=<val>:<err> err=<err>     and finally
//   # att=<closures submitted = calls of hook site 3, one per runTaskOnce>  # max=<max concurrent handlers>
package main

import (
	"context"
	"errors"
	"fmt"
	"reflect"
	"runtime"
	"runtime/debug"
	"strconv"
	"strings"
	"sync"
	"sync/atomic"
	"time"
	"unsafe"

	"github.com/lixianmin/got/ants"
	"verif/harness/hx"
)

type beh struct {
	dur  int64
	hon  bool
	v, e int
}

// one TaskOption of the script: kind 't' WithTimeout, 'r' WithRetry, 'd' WithDiscardOnBusy, 'e' WithError
type topt struct {
	kind byte
	val  int64
}

type taskSpec struct {
	g    int
	time int64
	opts []topt // the option LIST handed to Send, in order
	behs []beh
	// the harness's own left fold of the list (what the options mean), used for begin = ctx.Deadline - T and the horizon
	teff    int64
	reff    int
	discard bool
	cb      bool
}

type popt struct {
	kind byte // 's' WithSize, 'c' WithContextBuilder (0 = nil, 1 = builder returning the cancellable base context)
	val  int64
}

type park struct {
	site, ord int
	until     int64
}

type scen struct {
	n          int // effective pool size (fold of popts)
	popts      []popt
	customCtx  bool
	baseCancel int64 // -1: never
	parks      []park
	tasks      []taskSpec
}

func parseOpts(tok string) ([]topt, error) {
	if tok == "-" {
		return nil, nil
	}
	var out []topt
	for _, f := range strings.Split(tok, ",") {
		if len(f) < 2 || !strings.ContainsRune("trde", rune(f[0])) {
			return nil, errors.New("bad option " + f)
		}
		v, err := strconv.ParseInt(f[1:], 10, 64)
		if err != nil {
			return nil, err
		}
		out = append(out, topt{f[0], v})
	}
	return out, nil
}

// foldOpts: createTaskOptions as the harness understands the documented option semantics
func (t *taskSpec) foldOpts() {
	t.teff, t.reff, t.discard, t.cb = 365*day, 1, true, false
	for _, o := range t.opts {
		switch o.kind {
		case 't':
			if o.val > 0 {
				t.teff = o.val
			}
		case 'r':
			if o.val > 0 {
				t.reff = int(o.val)
			}
		case 'd':
			t.discard = o.val != 0
		case 'e':
			t.cb = o.val != 0
		}
	}
}

type herr struct{ code int }

func (e herr) Error() string { return "E" + strconv.Itoa(e.code) }

const day = int64(24 * time.Hour)

func parseScen(line string) (*scen, error) {
	parts := strings.SplitN(line, " | ", 2)
	h := strings.Fields(parts[0])
	if len(h) < 2 {
		return nil, errors.New("bad head")
	}
	sc := &scen{baseCancel: -1}
	for i := 0; i < len(h); i++ {
		switch h[i] {
		case "old":
		case "n", "popts", "basecancel", "park":
			i++
			if i >= len(h) {
				return nil, errors.New("bad head")
			}
			switch h[i-1] {
			case "n":
				v, _ := strconv.ParseInt(h[i], 10, 64)
				sc.popts = append(sc.popts, popt{'s', v})
			case "popts":
				for _, f := range strings.Split(h[i], ",") {
					if len(f) < 2 || (f[0] != 's' && f[0] != 'c') {
						return nil, errors.New("bad pool option " + f)
					}
					v, _ := strconv.ParseInt(f[1:], 10, 64)
					sc.popts = append(sc.popts, popt{f[0], v})
				}
			case "basecancel":
				sc.baseCancel, _ = strconv.ParseInt(h[i], 10, 64)
			case "park":
				f := strings.Split(h[i], ":")
				if len(f) != 3 {
					return nil, errors.New("bad park")
				}
				st, _ := strconv.Atoi(f[0])
				o, _ := strconv.Atoi(f[1])
				u, _ := strconv.ParseInt(f[2], 10, 64)
				sc.parks = append(sc.parks, park{st, o, u})
			}
		default:
			return nil, errors.New("bad head word " + h[i])
		}
	}
	sc.n = 1
	for _, o := range sc.popts {
		if o.kind == 's' && o.val > 0 {
			sc.n = int(o.val)
		}
		if o.kind == 'c' && o.val != 0 {
			sc.customCtx = true
		}
	}
	if len(parts) < 2 {
		return sc, nil
	}
	for _, ts := range strings.Split(parts[1], " ; ") {
		w := strings.Fields(ts)
		if len(w) == 0 {
			continue
		}
		var t taskSpec
		var behTok string
		switch len(w) {
		case 4:
			os, err := parseOpts(w[2])
			if err != nil {
				return nil, err
			}
			t.opts, behTok = os, w[3]
		case 7: // legacy form: every option once
			T, _ := strconv.ParseInt(w[2], 10, 64)
			R, _ := strconv.ParseInt(w[3], 10, 64)
			t.opts = []topt{{'t', T}, {'r', R}, {'d', int64(b2i(w[4] != "0"))}}
			if w[5] != "0" {
				t.opts = append(t.opts, topt{'e', 1})
			}
			behTok = w[6]
		default:
			return nil, errors.New("bad task")
		}
		t.g, _ = strconv.Atoi(w[0])
		t.time, _ = strconv.ParseInt(w[1], 10, 64)
		for _, bs := range strings.Split(behTok, ",") {
			f := strings.Split(bs, ":")
			if len(f) != 4 {
				return nil, errors.New("bad beh")
			}
			var b beh
			b.dur, _ = strconv.ParseInt(f[0], 10, 64)
			b.hon = f[1] != "0"
			b.v, _ = strconv.Atoi(f[2])
			b.e, _ = strconv.Atoi(f[3])
			t.behs = append(t.behs, b)
		}
		t.foldOpts()
		sc.tasks = append(sc.tasks, t)
	}
	return sc, nil
}

type invRec struct {
	begin, start, end int64
	ended             bool
	v                 any
	e                 error
	ecode             int
}

type taskObs struct {
	sent     bool
	lenAt    int
	discard  bool
	ret      int64
	returned bool
	invs     []*invRec
	onerr    []string
	got      bool
	getV     any
	getE     error
	getT     int64
	task     ants.Task
}

// the scenario currently running (hooks consult it)
type runState struct {
	mu      sync.Mutex
	sc      *scen
	start   time.Time
	obs     []taskObs
	running int
	maxRun  int
	hookCnt [5]int
}

var cur *runState
var curMu sync.Mutex

func (r *runState) rel() int64 { return int64(time.Since(r.start)) }

func hook(site int) {
	curMu.Lock()
	r := cur
	curMu.Unlock()
	if r == nil || site < 1 || site > 4 {
		return
	}
	r.mu.Lock()
	r.hookCnt[site]++
	ord := r.hookCnt[site]
	var until int64 = -1
	for _, p := range r.sc.parks {
		if p.site == site && p.ord == ord {
			until = p.until
			break
		}
	}
	r.mu.Unlock()
	if until >= 0 {
		if d := until - r.rel(); d > 0 {
			time.Sleep(time.Duration(d))
		}
	}
}

func showErr(e error) string {
	var he herr
	switch {
	case e == nil:
		return "nil"
	case e == context.DeadlineExceeded:
		return "DE"
	case e == context.Canceled:
		return "CANCELED"
	case ants.IsDiscardError(e):
		return "DISC"
	case errors.As(e, &he) && sameErr(e, he):
		return "E" + strconv.Itoa(he.code)
	}
	r := strings.NewReplacer(" ", "_", ":", "_", ",", "_", "|", "_", "@", "_", "[", "_", "]", "_")
	return "ERR?" + r.Replace(e.Error())
}

func showVal(v any) string {
	if v == nil {
		return "0"
	}
	if i, ok := v.(int); ok {
		return strconv.Itoa(i)
	}
	if p, ok := v.(*int); ok && p == nil {
		return "TN"
	}
	return "VAL?"
}

// stopPool ends the pool's 2N goroutines (what the finalizer would do on GC): the finalizer is cleared first so
// that closeChan is closed exactly once. An explicit runtime.GC() is not an option: it can spin forever under faketime.
func stopPool(p ants.Pool) {
	runtime.SetFinalizer(p, nil)
	f := reflect.ValueOf(p).Elem().Field(0).Elem().FieldByName("closeChan")
	ch := reflect.NewAt(f.Type(), unsafe.Pointer(f.UnsafeAddr())).Elem().Interface().(chan struct{})
	close(ch)
}

func chanLen(p ants.Pool) int {
	v := reflect.ValueOf(p).Elem().Field(0).Elem().FieldByName("taskChan")
	return v.Len()
}

func behOf(t *taskSpec, j int) beh {
	if j < len(t.behs) {
		return t.behs[j]
	}
	if len(t.behs) > 0 {
		return t.behs[len(t.behs)-1]
	}
	return beh{0, true, 1, 0}
}

// handler outcome kinds (error codes / value codes of the script):
//   err 0 nil | 101 fmt.Errorf("...: %w", context.DeadlineExceeded) | 102 context.Canceled | 103 context.DeadlineExceeded itself
//       104 fmt.Errorf("...: %w", context.Canceled) | 105 a custom type whose Is(DeadlineExceeded) is true | else herr{code}
//   val 0 nil | 900001 a typed nil (*int)(nil) inside the interface | else the int itself
// Observations render errors by IDENTITY: an error is shown with the label of the handler invocation that returned this
// very value; an error that merely errors.Is-matches shows as the bare sentinel / "ERR?…".
const typedNilCode = 900001

type isDE struct{ code int }

func (e *isDE) Error() string        { return "ISDE" + strconv.Itoa(e.code) }
func (e *isDE) Is(target error) bool { return target == context.DeadlineExceeded }

func mkErr(code int) error {
	switch code {
	case 0:
		return nil
	case 101:
		return fmt.Errorf("h101 own deadline: %w", context.DeadlineExceeded)
	case 102:
		return context.Canceled
	case 103:
		return context.DeadlineExceeded
	case 104:
		return fmt.Errorf("h104 upstream: %w", context.Canceled)
	case 105:
		return &isDE{105}
	}
	return herr{code}
}

func errLabel(code int) string {
	switch code {
	case 0:
		return "nil"
	case 101:
		return "W101(DE)"
	case 102:
		return "CANCELED"
	case 103:
		return "DE"
	case 104:
		return "W104(CANCELED)"
	case 105:
		return "ISDE105"
	}
	return "E" + strconv.Itoa(code)
}

func mkVal(v int) any {
	if v == 0 {
		return nil
	}
	if v == typedNilCode {
		return (*int)(nil)
	}
	return v
}

func sameErr(a, b error) (same bool) {
	defer func() {
		if recover() != nil {
			same = false
		}
	}()
	return a == b
}

// showErrOf renders e by identity with the errors returned by the handler invocations `invs` of the task
func showErrOf(e error, invs []*invRec) string {
	if e == nil {
		return "nil"
	}
	for _, rec := range invs {
		if rec.ended && rec.e != nil && sameErr(rec.e, e) {
			return errLabel(rec.ecode)
		}
	}
	return showErr(e)
}

func runScen(sc *scen) string {
	r := &runState{sc: sc, obs: make([]taskObs, len(sc.tasks))}
	baseCtx, baseCancel := context.WithCancel(context.Background())
	defer baseCancel()
	var popts []ants.PoolOption
	for _, o := range sc.popts {
		switch o.kind {
		case 's':
			popts = append(popts, ants.WithSize(int(o.val)))
		case 'c':
			if o.val != 0 {
				popts = append(popts, ants.WithContextBuilder(func() context.Context { return baseCtx }))
			} else {
				popts = append(popts, ants.WithContextBuilder(nil))
			}
		}
	}
	pool := ants.NewPool(popts...)
	r.start = time.Now()
	if sc.baseCancel >= 0 {
		at := sc.baseCancel
		go func() {
			if d := at - r.rel(); d > 0 {
				time.Sleep(time.Duration(d))
			}
			baseCancel()
		}()
	}
	curMu.Lock()
	cur = r
	curMu.Unlock()

	var horizon int64 = 1000
	var maxT int64
	for i := range sc.tasks {
		t := &sc.tasks[i]
		if t.time > maxT {
			maxT = t.time
		}
		for j := 0; j < t.reff; j++ {
			horizon += behOf(t, j).dur + 1
		}
	}
	for _, p := range sc.parks {
		if p.until > maxT {
			maxT = p.until
		}
	}
	if sc.baseCancel > maxT {
		maxT = sc.baseCancel
	}
	horizon += maxT

	byG := map[int][]int{}
	var gs []int
	for i := range sc.tasks {
		g := sc.tasks[i].g
		if _, ok := byG[g]; !ok {
			gs = append(gs, g)
		}
		byG[g] = append(byG[g], i)
	}
	for _, g := range gs {
		idxs := byG[g]
		go func() {
			for _, k := range idxs {
				t := &sc.tasks[k]
				if d := t.time - r.rel(); d > 0 {
					time.Sleep(time.Duration(d))
				}
				handler := func(ctx context.Context) (any, error) {
					var begin int64
					if dl, ok := ctx.Deadline(); ok {
						begin = int64(dl.Sub(r.start)) - t.teff
					}
					r.mu.Lock()
					j := len(r.obs[k].invs)
					rec := &invRec{begin: begin, start: r.rel()}
					r.obs[k].invs = append(r.obs[k].invs, rec)
					r.running++
					if r.running > r.maxRun {
						r.maxRun = r.running
					}
					r.mu.Unlock()
					b := behOf(t, j)
					var v any
					var e error
					ecode := b.e
					if b.hon {
						tm := time.NewTimer(time.Duration(b.dur))
						select {
						case <-tm.C:
							v, e = mkVal(b.v), mkErr(b.e)
						case <-ctx.Done():
							tm.Stop()
							v, e, ecode = nil, herr{999}, 999
						}
					} else {
						if b.dur > 0 {
							time.Sleep(time.Duration(b.dur))
						}
						v, e = mkVal(b.v), mkErr(b.e)
					}
					r.mu.Lock()
					r.running--
					rec.end, rec.ended, rec.v, rec.e, rec.ecode = r.rel(), true, v, e, ecode
					r.mu.Unlock()
					return v, e
				}
				onErr := func(err error) {
					r.mu.Lock()
					r.obs[k].onerr = append(r.obs[k].onerr, fmt.Sprintf("%s@%d", showErrOf(err, r.obs[k].invs), r.rel()))
					r.mu.Unlock()
				}
				var opts []ants.TaskOption
				for _, o := range t.opts {
					switch o.kind {
					case 't':
						opts = append(opts, ants.WithTimeout(time.Duration(o.val)))
					case 'r':
						opts = append(opts, ants.WithRetry(int(o.val)))
					case 'd':
						opts = append(opts, ants.WithDiscardOnBusy(o.val != 0))
					case 'e':
						if o.val != 0 {
							opts = append(opts, ants.WithError(onErr))
						} else {
							opts = append(opts, ants.WithError(nil))
						}
					}
				}
				r.mu.Lock()
				r.obs[k].sent = true
				r.obs[k].lenAt = chanLen(pool)
				r.mu.Unlock()
				task := pool.Send(handler, opts...)
				ret := r.rel()
				isDiscard := reflect.TypeOf(task).Elem().Name() == "taskDiscard"
				r.mu.Lock()
				o := &r.obs[k]
				o.ret, o.returned, o.discard, o.task = ret, true, isDiscard, task
				r.mu.Unlock()
				go func() {
					v, e := task.Get2()
					tt := r.rel()
					r.mu.Lock()
					o := &r.obs[k]
					o.got, o.getV, o.getE, o.getT = true, v, e, tt
					r.mu.Unlock()
				}()
			}
		}()
	}
	time.Sleep(time.Duration(horizon))
	time.Sleep(1) // quiescence barrier
	curMu.Lock()
	cur = nil
	curMu.Unlock()

	var sb strings.Builder
	r.mu.Lock()
	defer r.mu.Unlock()
	for k := range r.obs {
		o := &r.obs[k]
		if k > 0 {
			sb.WriteString(" ; ")
		}
		var iv []string
		for _, rec := range o.invs {
			if rec.ended {
				iv = append(iv, fmt.Sprintf("%d:%d:%d:%s:%s", rec.begin, rec.start, rec.end, showVal(rec.v), errLabel(rec.ecode)))
			} else {
				iv = append(iv, fmt.Sprintf("%d:%d:-:-", rec.begin, rec.start))
			}
		}
		invS := strings.Join(iv, "|")
		onS := strings.Join(o.onerr, ",")
		switch {
		case !o.sent:
			sb.WriteString("unsent")
		case !o.returned:
			fmt.Fprintf(&sb, "len=%d blocked inv=[%s] onerr=[%s]", o.lenAt, invS, onS)
		case !o.got:
			fmt.Fprintf(&sb, "len=%d acc ret=%d inv=[%s] onerr=[%s] get=- get2=- err=-", o.lenAt, o.ret, invS, onS)
		default:
			// second round of reads at a later virtual instant: the published pair must not have changed
			r.mu.Unlock()
			v2, e2 := o.task.Get2()
			e3 := o.task.Err()
			r.mu.Lock()
			kind := "acc"
			if o.discard {
				kind = "dis"
			}
			fmt.Fprintf(&sb, "len=%d %s ret=%d inv=[%s] onerr=[%s] get=%s:%s@%d get2=%s:%s err=%s", o.lenAt, kind, o.ret, invS, onS,
				showVal(o.getV), showErrOf(o.getE, o.invs), o.getT, showVal(v2), showErrOf(e2, o.invs), showErrOf(e3, o.invs))
		}
	}
	// attempts whose closure was handed to sendInnerCallback (hook site 3 is passed once per runTaskOnce, by the dispatcher,
	// right after the submission): the oracle compares it with the number of handler invocations at quiescence
	fmt.Fprintf(&sb, " # att=%d # max=%d", r.hookCnt[3], r.maxRun)
	stopPool(pool)
	return sb.String()
}

var scenCount int

// runStress: a real-scheduler stress line (oracle-only, not monitored): `pools` fresh pools of size n; on each, k
// goroutines are released from a spin barrier and Send one task each; the handlers keep a running counter. Runs with 4 Ps
// (the rest of the harness uses one) and with the GC off, which under faketime can livelock with several Ps.
// NOTE: the stress lines are not generated by gen(); checklib/c08.py runs them in a SEPARATE harness process with a 60 s
// real-time limit (a watchdog inside this process is impossible: a goroutine blocked in a real syscall or in signal
// delivery keeps an M busy, and the faketime clock advances only when every M is idle).
func runStress(n, k, pools int) string {
	var progress int32
	return runStressBody(n, k, pools, &progress)
}

func runStressBody(n, k, pools int, progress *int32) string {
	oldP := runtime.GOMAXPROCS(4)
	defer runtime.GOMAXPROCS(oldP)
	oldGC := debug.SetGCPercent(-1)
	defer debug.SetGCPercent(oldGC)
	over, maxAll, bad := 0, int32(0), 0
	for p := 0; p < pools; p++ {
		pool := ants.NewPool(ants.WithSize(n))
		var running, maxr, ready int32
		handler := func(ctx context.Context) (any, error) {
			cur := atomic.AddInt32(&running, 1)
			for {
				m := atomic.LoadInt32(&maxr)
				if cur <= m || atomic.CompareAndSwapInt32(&maxr, m, cur) {
					break
				}
			}
			time.Sleep(1000)
			atomic.AddInt32(&running, -1)
			return 1, nil
		}
		tasks := make([]ants.Task, k)
		var wg sync.WaitGroup
		for i := 0; i < k; i++ {
			wg.Add(1)
			go func() {
				defer wg.Done()
				atomic.AddInt32(&ready, 1)
				for atomic.LoadInt32(&ready) < int32(k) {
					runtime.Gosched()
				}
				tasks[i] = pool.Send(handler, ants.WithDiscardOnBusy(false))
			}()
		}
		wg.Wait()
		for _, t := range tasks {
			if v, err := t.Get2(); err != nil || v != 1 {
				bad++
			}
		}
		if m := atomic.LoadInt32(&maxr); int(m) > n {
			over++
			if m > maxAll {
				maxAll = m
			}
		} else if m > maxAll {
			maxAll = m
		}
		stopPool(pool)
		atomic.StoreInt32(progress, int32(p+1))
	}
	return fmt.Sprintf("stress n=%d k=%d pools=%d over=%d bad=%d max=%d", n, k, pools, over, bad, maxAll)
}

func exec(c *hx.Ctx, line string) string {
	if strings.HasPrefix(line, "stress ") {
		var n, k, pools int
		if _, err := fmt.Sscanf(line, "stress %d %d %d", &n, &k, &pools); err != nil || n < 1 || k < 1 || pools < 1 {
			return "bad-script stress"
		}
		return runStress(n, k, pools)
	}
	sc, err := parseScen(line)
	if err != nil {
		return "bad-script " + err.Error()
	}
	scenCount++
	return runScen(sc)
}

func main() {
	ants.VerifHook = hook
	hx.Main(gen, exec)
}
