//go:build verif && faketime

package main

import (
	"fmt"
	"strings"

	"verif/harness/hx"
)

type gtask struct {
	g       int
	time    int64
	T       int64
	R       int
	discard bool
	cb      bool
	behs    []beh
}

func b2i(b bool) int {
	if b {
		return 1
	}
	return 0
}

func (t gtask) String() string {
	var bs []string
	for _, b := range t.behs {
		bs = append(bs, fmt.Sprintf("%d:%d:%d:%d", b.dur, b2i(b.hon), b.v, b.e))
	}
	return fmt.Sprintf("%d %d %d %d %d %d %s", t.g, t.time, t.T, t.R, b2i(t.discard), b2i(t.cb), strings.Join(bs, ","))
}

func emit(c *hx.Ctx, n int, parks []park, tasks []gtask) { emitHead(c, fmt.Sprintf("n %d", n), parks, tasks) }

func emitHead(c *hx.Ctx, head string, parks []park, tasks []gtask) {
	var ts []string
	for _, t := range tasks {
		ts = append(ts, t.String())
	}
	emitRaw(c, head, parks, ts)
}

// optTask renders a task in the option-list form: <g> <time> <opts> <behs>
func optTask(g int, tm int64, opts string, behs []beh) string {
	var bs []string
	for _, b := range behs {
		bs = append(bs, fmt.Sprintf("%d:%d:%d:%d", b.dur, b2i(b.hon), b.v, b.e))
	}
	return fmt.Sprintf("%d %d %s %s", g, tm, opts, strings.Join(bs, ","))
}

func emitRaw(c *hx.Ctx, head string, parks []park, tasks []string) {
	var sb strings.Builder
	sb.WriteString(head)
	for _, p := range parks {
		fmt.Fprintf(&sb, " park %d:%d:%d", p.site, p.ord, p.until)
	}
	sb.WriteString(" | ")
	for i, t := range tasks {
		if i > 0 {
			sb.WriteString(" ; ")
		}
		sb.WriteString(t)
	}
	c.Emit("%s", sb.String())
}

// duration classes relative to the timeout T
func durClass(c *hx.Ctx, T int64, cls int) int64 {
	switch cls {
	case 0:
		return T / 2
	case 1:
		return T - 1
	case 2:
		return T // exact tie with the deadline
	case 3:
		return T + 1
	case 4:
		return 2*T + 7
	case 5:
		return 0
	case 6:
		return 5*T + int64(c.Rng.Intn(1000))
	}
	return int64(c.Rng.Intn(int(3*T))) + 1
}

// error kinds a handler may return (see main.go: mkErr): plain, wrapped DeadlineExceeded, Canceled, the bare
// DeadlineExceeded sentinel, wrapped Canceled, a type whose Is(DeadlineExceeded) holds
var errKinds = []int{1, 2, 3, 4, 5, 101, 102, 103, 104, 105}

func randBeh(c *hx.Ctx, T int64, val int, honPct int) beh {
	b := beh{dur: durClass(c, T, c.Rng.Intn(9)), hon: c.Rng.Intn(100) < honPct, v: val}
	if c.Rng.Intn(12) == 0 {
		b.v = typedNilCode
	}
	if c.Rng.Intn(3) == 0 {
		b.e = errKinds[c.Rng.Intn(len(errKinds))]
		if c.Rng.Intn(3) == 0 {
			b.v = 0 // otherwise: a non-nil result TOGETHER with a non-nil error
		}
	}
	return b
}

func gen(c *hx.Ctx) {
	// 1. exhaustive single-task sweep: N=1, every sequence of per-attempt behaviours from a 12-letter alphabet
	{
		const T = 1000
		var alpha []beh
		for _, d := range []int64{400, T, T + 500} {
			for _, hon := range []bool{true, false} {
				for _, e := range []int{0, 3} {
					alpha = append(alpha, beh{d, hon, 7, e})
				}
			}
		}
		maxR := c.Budget(2, 3)
		var rec func(R int, pre []beh)
		rec = func(R int, pre []beh) {
			if len(pre) == R {
				bs := make([]beh, R)
				copy(bs, pre)
				for i := range bs {
					bs[i].v = 7 + i
				}
				emit(c, 1, nil, []gtask{{0, 100, T, R, true, true, bs}})
				c.Count("single_exhaustive")
				return
			}
			for _, a := range alpha {
				rec(R, append(pre, a))
			}
		}
		for R := 1; R <= maxR; R++ {
			rec(R, nil)
		}
		if maxR < 3 {
			for i := 0; i < 150; i++ {
				bs := []beh{alpha[c.Rng.Intn(12)], alpha[c.Rng.Intn(12)], alpha[c.Rng.Intn(12)]}
				for j := range bs {
					bs[j].v = 7 + j
				}
				emit(c, 1, nil, []gtask{{0, 100, T, 3, true, c.Rng.Bool(), bs}})
				c.Count("single_r3_sample")
			}
		}
	}
	// 2. option defaults: T <= 0 keeps 365 days, R <= 0 keeps 1
	for _, T := range []int64{0, -5} {
		for _, R := range []int{0, -1, 2} {
			emit(c, 1, nil, []gtask{{0, 10, T, R, true, true, []beh{{5000, true, 4, 2}, {7000, false, 5, 0}}}})
			c.Count("defaults")
		}
	}
	// 3. hook-driven schedules (single dispatcher): an attempt's two deciders are delayed against each other
	{
		const T = 1000
		untils := []int64{900, 1000, 1500, 2500}
		for _, site := range []int{1, 2, 3, 4} {
			for _, u := range untils {
				for _, d := range []int64{900, 1000, 1200} {
					for _, hon := range []bool{true, false} {
						for R := 1; R <= 2; R++ {
							emit(c, 1, []park{{site, 1, u}}, []gtask{{0, 0, T, R, true, true, []beh{{d, hon, 7, 0}, {100, true, 8, 0}}}})
							c.Count("park_single")
						}
					}
				}
			}
		}
		for i := 0; i < c.Budget(300, 3000); i++ {
			var ps []park
			for j := 0; j < 1+c.Rng.Intn(3); j++ {
				ps = append(ps, park{1 + c.Rng.Intn(4), 1 + c.Rng.Intn(3), int64(500 + c.Rng.Intn(4000))})
			}
			R := 1 + c.Rng.Intn(3)
			var bs []beh
			for j := 0; j < R; j++ {
				bs = append(bs, randBeh(c, T, 7+j, 60))
			}
			n := 1 + c.Rng.Intn(2)
			tasks := []gtask{{0, 0, T, R, true, true, bs}}
			if c.Rng.Bool() {
				tasks = append(tasks, gtask{1, 300, T, 1 + c.Rng.Intn(2), false, true, []beh{randBeh(c, T, 20, 60), randBeh(c, T, 21, 60)}})
			}
			emit(c, n, ps, tasks)
			c.Count("park_random")
		}
	}
	// 3b. handler outcome kinds: every (result kind x error kind) at every position relative to the deadline; the pair
	// published by Get2 / handed to onError must be the very pair the handler returned (identity, not errors.Is)
	{
		const T = 1000
		vals := []int{0, 7, typedNilCode}
		errs := []int{0, 3, 101, 102, 103, 104, 105}
		for _, d := range []int64{400, T, T + 500} {
			for _, v := range vals {
				for _, e := range errs {
					hon := (v+e)%2 == 0
					emit(c, 1, nil, []gtask{{0, 50, T, 1, true, true, []beh{{d, hon, v, e}}}})
					emit(c, 1+c.Rng.Intn(2), nil, []gtask{{0, 50, T, 2, true, c.Rng.Intn(4) != 0, []beh{{d, !hon, v, e}, {[]int64{300, T, 1700}[c.Rng.Intn(3)], true, vals[c.Rng.Intn(3)], errs[c.Rng.Intn(len(errs))]}}}})
					c.Count("outcome_kinds")
				}
			}
		}
	}
	// 3c. default-option tasks (no timeout: T <= 0, retry 0/1) sent while timed tasks' ctx-ignoring handlers overrun:
	// more tasks than N; the handlers of the untimed tasks must still queue for the N inner workers
	for i := 0; i < c.Budget(120, 1500); i++ {
		n := 1 + c.Rng.Intn(4)
		T := int64(1000)
		var tasks []gtask
		var tm int64 = int64(c.Rng.Intn(20))
		nTimed := 1 + c.Rng.Intn(n)
		for k := 0; k < nTimed; k++ {
			R := 1 + c.Rng.Intn(2)
			var bs []beh
			for j := 0; j < R; j++ {
				bs = append(bs, beh{int64(4000 + c.Rng.Intn(9000)), false, 5 + j, 0})
			}
			tasks = append(tasks, gtask{c.Rng.Intn(2), tm, T, R, false, true, bs})
			tm += int64(1 + c.Rng.Intn(60))
		}
		tm = T + 100 + int64(c.Rng.Intn(1500)) // the dispatchers are free again, the inner workers are not
		nUntimed := 1 + c.Rng.Intn(n+2)
		for k := 0; k < nUntimed; k++ {
			b := beh{int64(200 + c.Rng.Intn(3000)), c.Rng.Bool(), 30 + k, 0}
			if c.Rng.Intn(4) == 0 {
				b.e = errKinds[c.Rng.Intn(len(errKinds))]
			}
			rawT := []int64{0, 0, -1}[c.Rng.Intn(3)]
			rawR := []int{1, 0, 1, 2}[c.Rng.Intn(4)]
			tasks = append(tasks, gtask{2 + c.Rng.Intn(2), tm, rawT, rawR, c.Rng.Intn(3) == 0, c.Rng.Bool(), []beh{b, {100, true, 50 + k, 0}}})
			tm += int64(1 + c.Rng.Intn(400))
		}
		if c.Rng.Bool() {
			tasks = append(tasks, gtask{0, tm, T, 1, true, true, []beh{{500, true, 70, 0}}})
		}
		emit(c, n, nil, tasks)
		c.Count("mixed_untimed")
	}
	// 3d. larger pools: N tasks running with long handlers, then the queue is filled one task at a time at distinct
	// instants: 2N-1 / 2N outstanding tasks are accepted, the (2N+1)-th discardable one is rejected (queue exactly full),
	// a non-discardable one blocks until a slot frees
	for _, n := range []int{16, 17, 32, 33} {
		for variant := 0; variant < c.Budget(2, 4); variant++ {
			var tasks []gtask
			var tm int64
			long := int64(100000 + 1000*variant)
			for k := 0; k < 2*n+2; k++ {
				discard := true
				if variant%2 == 1 && k%5 == 0 {
					discard = false
				}
				if k == 2*n+1 {
					discard = variant >= 2 // the last one: rejected, or (non-discardable) blocked until a handler returns
				}
				d := long
				if k >= n {
					d = 50
				}
				tasks = append(tasks, gtask{k % 3, tm, 0, 1, discard, true, []beh{{d, true, 1 + k, 0}}})
				tm += int64(3 + c.Rng.Intn(5))
			}
			emit(c, n, nil, tasks)
			c.Count(fmt.Sprintf("large_pool_n%d", n))
		}
	}
	// 3e. option LISTS: the options are functions applied left to right (WithTimeout / WithRetry ignore values <= 0,
	// WithDiscardOnBusy and WithError always assign): repeated, zero, negative and huge values in every order; pool option
	// lists likewise (WithSize ignores <= 0, WithContextBuilder ignores nil). The handlers need the timeout that is in effect.
	for i := 0; i < c.Budget(260, 4000); i++ {
		n := 1 + c.Rng.Intn(2)
		head := fmt.Sprintf("n %d", n)
		if c.Rng.Intn(3) == 0 {
			ps := []string{fmt.Sprintf("s%d", n)}
			for j := 0; j < 1+c.Rng.Intn(3); j++ {
				ps = append(ps, []string{"s0", "s-3", "c0", fmt.Sprintf("s%d", n), "c1", "c0"}[c.Rng.Intn(6)])
			}
			if c.Rng.Intn(4) == 0 {
				ps = append([]string{fmt.Sprintf("s%d", 1+c.Rng.Intn(4))}, ps...)
			}
			head = "popts " + strings.Join(ps, ",")
		}
		var tasks []string
		var tm int64 = 10
		for k := 0; k < 1+c.Rng.Intn(3); k++ {
			var os []string
			pos := []int64{1000, 2000, 600}
			for j := 0; j < 1+c.Rng.Intn(5); j++ {
				switch c.Rng.Intn(10) {
				case 0, 1:
					os = append(os, fmt.Sprintf("t%d", pos[c.Rng.Intn(3)]))
				case 2:
					os = append(os, []string{"t0", "t-1", "t-1000000"}[c.Rng.Intn(3)])
				case 3:
					os = append(os, fmt.Sprintf("r%d", 1+c.Rng.Intn(3)))
				case 4:
					os = append(os, []string{"r0", "r-1", "r-7"}[c.Rng.Intn(3)])
				case 5:
					os = append(os, []string{"d0", "d1"}[c.Rng.Intn(2)])
				case 6:
					os = append(os, []string{"e0", "e1"}[c.Rng.Intn(2)])
				case 7:
					os = append(os, "t3000000000000000000") // huge: ~95 years
				case 8: // the classic: defaults followed by an unset (zero) override
					os = append(os, fmt.Sprintf("t%d", pos[c.Rng.Intn(3)]), fmt.Sprintf("r%d", 1+c.Rng.Intn(3)), "e1", "t0", "r0")
				case 9:
					os = append(os, "e1")
				}
			}
			ts := taskSpec{}
			ts.opts, _ = parseOpts(strings.Join(os, ","))
			ts.foldOpts()
			base := ts.teff
			if base > 100000 {
				base = 1000
			}
			var bs []beh
			for j := 0; j < ts.reff; j++ {
				b := beh{dur: []int64{base / 2, base, 3 * base, 3*base + 500}[c.Rng.Intn(4)], hon: c.Rng.Intn(4) != 0, v: 10*(k+1) + j}
				if c.Rng.Intn(4) == 0 {
					b.e = errKinds[c.Rng.Intn(len(errKinds))]
				}
				bs = append(bs, b)
			}
			tasks = append(tasks, optTask(k%2, tm, strings.Join(os, ","), bs))
			tm += int64(1 + c.Rng.Intn(3000))
		}
		emitRaw(c, head, nil, tasks)
		c.Count("option_lists")
	}
	// 3f. the dispatchers' own context (WithContextBuilder) is cancelled at a scripted instant: before the Send, between
	// attempts, during an attempt. The instant is odd, every other number even, so nothing ties with the cancellation.
	for i := 0; i < c.Budget(200, 3000); i++ {
		n := 1 + c.Rng.Intn(3)
		T := int64(1000)
		var X int64
		switch c.Rng.Intn(4) {
		case 0:
			X = 1 // before everything
		case 1:
			X = 2*int64(c.Rng.Intn(400)) + 101 // during the first attempts
		default:
			X = 2*int64(c.Rng.Intn(2500)) + 201
		}
		popts := fmt.Sprintf("s%d,c1", n)
		if c.Rng.Intn(6) == 0 {
			popts = fmt.Sprintf("s%d,c1,c0,s0", n) // a nil builder / non-positive size later in the list changes nothing
		}
		if c.Rng.Intn(10) == 0 {
			popts = fmt.Sprintf("s%d,c0", n) // nil builder only: the contexts are context.Background, the cancellation is moot
		}
		var tasks []gtask
		var tm int64 = 10
		for k := 0; k < 1+c.Rng.Intn(4); k++ {
			R := 1 + c.Rng.Intn(3)
			var bs []beh
			for j := 0; j < R; j++ {
				b := beh{dur: []int64{0, 400, 1000, 1600, 5000}[c.Rng.Intn(5)], hon: c.Rng.Intn(3) != 0, v: 10*(k+1) + j}
				if c.Rng.Intn(3) == 0 {
					b.e = []int{2, 4, 102, 104}[c.Rng.Intn(4)]
				}
				bs = append(bs, b)
			}
			tasks = append(tasks, gtask{g: k % 2, time: tm, T: T, R: R, discard: c.Rng.Intn(3) != 0, cb: c.Rng.Intn(4) != 0, behs: bs})
			tm += 2 * int64(1+c.Rng.Intn(700))
		}
		emitHead(c, fmt.Sprintf("popts %s basecancel %d", popts, X), nil, tasks)
		c.Count("base_ctx_cancelled")
	}
	// 3g. accepted tasks wait in taskChan for LONGER than their own T before a dispatcher picks them up (all N dispatchers
	// busy with long handlers; queue not full or discardOnBusy false); their handlers then succeed quickly: T counts from the
	// attempt's start, not from Send
	for i := 0; i < c.Budget(150, 2000); i++ {
		n := 1 + c.Rng.Intn(3)
		var tasks []gtask
		var tm int64 = int64(c.Rng.Intn(10))
		long := int64(6000 + c.Rng.Intn(6000))
		for k := 0; k < n; k++ {
			tasks = append(tasks, gtask{k % 2, tm, 0, 1, false, true, []beh{{long + int64(c.Rng.Intn(500)), true, 5 + k, 0}}})
			tm += int64(1 + c.Rng.Intn(30))
		}
		for k := 0; k < 1+c.Rng.Intn(n+1); k++ {
			T := []int64{500, 1000, 2000}[c.Rng.Intn(3)]
			R := 1 + c.Rng.Intn(2)
			bs := []beh{{int64(50 + c.Rng.Intn(300)), c.Rng.Bool(), 40 + k, 0}, {100, true, 60 + k, 0}}
			if c.Rng.Intn(4) == 0 {
				bs[0].e = errKinds[c.Rng.Intn(len(errKinds))]
			}
			tasks = append(tasks, gtask{2, tm, T, R, c.Rng.Intn(3) == 0 && k < n, true, bs})
			tm += int64(1 + c.Rng.Intn(200))
		}
		emit(c, n, nil, tasks)
		c.Count("queue_wait_longer_than_T")
	}
	// 3h. Sends from DIFFERENT goroutines at the SAME scripted instant (the runtime chooses their order; every order must
	// be accepted), with a small queue so that the order decides who is queued / rejected / blocked
	for i := 0; i < c.Budget(80, 1200); i++ {
		n := 1 + c.Rng.Intn(2)
		var tasks []gtask
		T := int64(1000)
		inst := []int64{10, 10, 10, 700, 700, 1400}
		ng := 2 + c.Rng.Intn(3)
		for k := 0; k < 2+c.Rng.Intn(5); k++ {
			tm := inst[c.Rng.Intn(len(inst))]
			tasks = append(tasks, gtask{k % ng, tm, T, 1 + c.Rng.Intn(2), c.Rng.Intn(3) != 0, true,
				[]beh{{[]int64{300, 700, 1000, 2500}[c.Rng.Intn(4)], c.Rng.Bool(), 10 + k, []int{0, 0, 3}[c.Rng.Intn(3)]}, {200, true, 30 + k, 0}}})
		}
		// per goroutine the sends happen in list order: keep each goroutine's instants non-decreasing
		for g := 0; g < ng; g++ {
			var last int64
			for k := range tasks {
				if tasks[k].g == g {
					if tasks[k].time < last {
						tasks[k].time = last
					}
					last = tasks[k].time
				}
			}
		}
		emit(c, n, nil, tasks)
		c.Count("same_instant_sends")
	}
	// 4. random multi-task scenarios
	for i := 0; i < c.Budget(1600, 12000); i++ {
		n := 1 + c.Rng.Intn(4)
		nt := 2 + c.Rng.Intn(c.Budget(7, 9))
		ng := 1 + c.Rng.Intn(3)
		honPct := []int{100, 100, 85, 50}[c.Rng.Intn(4)]
		var tm int64 = int64(c.Rng.Intn(50))
		var tasks []gtask
		burst := c.Rng.Intn(3) == 0
		for k := 0; k < nt; k++ {
			T := []int64{1000, 5000, 20000}[c.Rng.Intn(3)]
			R := 1 + c.Rng.Intn(3)
			var bs []beh
			for j := 0; j < R; j++ {
				bs = append(bs, randBeh(c, T, 10*(k+1)+j, honPct))
			}
			discard := c.Rng.Intn(4) != 0
			rawT, rawR := T, R
			if c.Rng.Intn(8) == 0 { // default options: no timeout (and often no retry)
				rawT = 0
				if c.Rng.Bool() {
					rawR = c.Rng.Intn(2)
				}
				c.Count("random_default_option_tasks")
			}
			tasks = append(tasks, gtask{c.Rng.Intn(ng), tm, rawT, rawR, discard, c.Rng.Intn(4) != 0, bs})
			if burst {
				tm += int64(1 + c.Rng.Intn(40))
			} else {
				tm += int64(1 + c.Rng.Intn(6000))
			}
		}
		emit(c, n, nil, tasks)
		c.Count(fmt.Sprintf("random_n%d", n))
		if burst {
			c.Count("random_burst")
		}
	}
	// 5. inner workers clogged by handlers that ignore cancellation (the C08 known finding lives here)
	for i := 0; i < c.Budget(80, 600); i++ {
		n := 1 + c.Rng.Intn(2)
		T := int64(1000)
		var tasks []gtask
		var tm int64
		for k := 0; k < n; k++ {
			tasks = append(tasks, gtask{0, tm, T, 1, false, true, []beh{{int64(20000 + c.Rng.Intn(80000)), false, 5, 0}}})
			tm += int64(1 + c.Rng.Intn(100))
		}
		for k := 0; k < 1+c.Rng.Intn(3); k++ {
			R := 1 + c.Rng.Intn(3)
			var bs []beh
			for j := 0; j < R; j++ {
				bs = append(bs, beh{int64(500 + c.Rng.Intn(3000)), true, 30 + j, 0})
			}
			tasks = append(tasks, gtask{1, tm, T, R, c.Rng.Bool(), true, bs})
			tm += int64(1 + c.Rng.Intn(3000))
		}
		emit(c, n, nil, tasks)
		c.Count("clog")
	}
	// the documented instance: N=1, A ignores ctx for 100 s (T=1 s, R=1), B honours ctx (T=1 s, R=3)
	emit(c, 1, nil, []gtask{
		{0, 0, 1000000000, 1, false, true, []beh{{100000000000, false, 5, 0}}},
		{0, 1000, 1000000000, 3, false, true, []beh{{2000000000, true, 6, 0}, {2000000000, true, 6, 0}, {2000000000, true, 6, 0}}}})
	c.Count("clog_documented")
	// 6. ties: several tasks whose handlers end exactly at their deadlines / at each other's events
	for i := 0; i < c.Budget(250, 2500); i++ {
		n := 1 + c.Rng.Intn(3)
		T := int64(1000)
		var tasks []gtask
		for k := 0; k < 2+c.Rng.Intn(3); k++ {
			R := 1 + c.Rng.Intn(2)
			var bs []beh
			for j := 0; j < R; j++ {
				bs = append(bs, beh{[]int64{T, T, 500, 2 * T}[c.Rng.Intn(4)], c.Rng.Bool(), 40 + 10*k + j, []int{0, 0, 2}[c.Rng.Intn(3)]})
			}
			tasks = append(tasks, gtask{k % 2, int64(k * 500), T, R, c.Rng.Bool(), true, bs})
		}
		emit(c, n, nil, tasks)
		c.Count("ties")
	}
}
