// C14 harness: sortx.Search on synthetic predicates, with probe log.
//   mono n b e            less k = k < b ; equal k = b <= k < b+e     (a sorted list)
//   bits n lessmask eqmask  arbitrary predicates over n <= 62 indices (model fidelity off the property's domain)
package main

import (
	"fmt"
	"strconv"
	"strings"

	"github.com/lixianmin/got/sortx"
	"verif/harness/hx"
)

func run(n int, less, equal func(int) bool) string {
	var sb strings.Builder
	probes := 0
	r := sortx.Search(n, func(i int) bool {
		probes++
		if probes > 400 {
			panic("too many probes")
		}
		fmt.Fprintf(&sb, " l%d", i)
		return less(i)
	}, func(i int) bool {
		probes++
		if probes > 400 {
			panic("too many probes")
		}
		fmt.Fprintf(&sb, " e%d", i)
		return equal(i)
	})
	return fmt.Sprintf("r %d probes%s", r, sb.String())
}

func exec(c *hx.Ctx, line string) string {
	w := strings.Fields(line)
	switch w[0] {
	case "mono":
		n, _ := strconv.Atoi(w[1])
		b, _ := strconv.Atoi(w[2])
		e, _ := strconv.Atoi(w[3])
		return run(n, func(k int) bool { return k < b }, func(k int) bool { return b <= k && k < b+e })
	case "bits":
		n, _ := strconv.Atoi(w[1])
		lm, _ := strconv.ParseUint(w[2], 10, 64)
		em, _ := strconv.ParseUint(w[3], 10, 64)
		return run(n, func(k int) bool { return k >= 0 && k < 64 && lm>>uint(k)&1 == 1 }, func(k int) bool { return k >= 0 && k < 64 && em>>uint(k)&1 == 1 })
	}
	return "bad-op"
}

func gen(c *hx.Ctx) {
	// exhaustive: every n <= N, every boundary b in [0,n], every run length e in [0, n-b]
	N := c.Budget(40, 150)
	for n := -1; n <= N; n++ {
		for b := 0; b <= n || b == 0; b++ {
			for e := 0; e <= n-b || e == 0; e++ {
				c.Emit("mono %d %d %d", n, b, e)
				c.Count("mono_exhaustive")
			}
		}
	}
	// arbitrary (non-monotone) predicates, exhaustive for n <= 4 (quick) / 6 (thorough)
	M := c.Budget(4, 7)
	for n := 1; n <= M; n++ {
		for lm := uint64(0); lm < 1<<uint(n); lm++ {
			for em := uint64(0); em < 1<<uint(n); em++ {
				c.Emit("bits %d %d %d", n, lm, em)
				c.Count("bits_exhaustive")
			}
		}
	}
	// sampled large n up to 2^62 (the midpoint expression must not overflow)
	K := c.Budget(3000, 200000)
	for i := 0; i < K; i++ {
		sh := c.Rng.Range(1, 62)
		n := int(c.Rng.U64()>>1)%(1<<uint(sh)) + 1
		var b int
		switch c.Rng.Intn(5) {
		case 0:
			b = 0
		case 1:
			b = n
		case 2:
			b = n - 1
		default:
			b = int(c.Rng.U64()>>1) % (n + 1)
		}
		e := 0
		if b < n && c.Rng.Intn(3) > 0 {
			e = int(c.Rng.U64()>>1)%(n-b) + 1
			if c.Rng.Bool() {
				e = 1
			}
		}
		c.Emit("mono %d %d %d", n, b, e)
		c.Count("mono_large")
	}
	// counts beyond 2^62 up to MaxInt: i+j no longer fits a signed int, the midpoint must be computed unsigned
	for i := 0; i < c.Budget(400, 20000); i++ {
		const maxInt = int(^uint(0) >> 1)
		n := maxInt - int(c.Rng.U64()>>2)%(1<<uint(c.Rng.Range(1, 61)))
		var b int
		switch c.Rng.Intn(6) {
		case 0:
			b = n
		case 1:
			b = n - 1
		case 2:
			b = n/2 + int(c.Rng.U64()>>3)
		case 3:
			b = int(c.Rng.U64() >> 1 % uint64(n))
		default:
			b = n - int(c.Rng.U64()>>2)%(1<<uint(c.Rng.Range(1, 61)))
		}
		if b < 0 {
			b = 0
		}
		if b > n {
			b = n
		}
		e := 0
		if b < n && c.Rng.Bool() {
			e = 1 + int(c.Rng.U64()>>2)%(n-b)
			if c.Rng.Bool() {
				e = 1
			}
		}
		c.Emit("mono %d %d %d", n, b, e)
		c.Count("mono_huge")
	}
	for i := 0; i < c.Budget(500, 20000); i++ {
		n := c.Rng.Range(5, 62)
		c.Emit("bits %d %d %d", n, c.Rng.U64()&(1<<uint(n)-1), c.Rng.U64()&(1<<uint(n)-1))
		c.Count("bits_random")
	}
}

func main() { hx.Main(gen, exec) }
