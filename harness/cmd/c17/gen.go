package main

import (
	"fmt"
	"strings"

	"verif/harness/hx"
)

// interleavings: every sequence that contains counts[i] copies of thread id i.
func interleavings(counts []int) [][]int {
	var out [][]int
	total := 0
	for _, c := range counts {
		total += c
	}
	cur := make([]int, 0, total)
	left := append([]int(nil), counts...)
	var rec func()
	rec = func() {
		if len(cur) == total {
			out = append(out, append([]int(nil), cur...))
			return
		}
		for i := range left {
			if left[i] > 0 {
				left[i]--
				cur = append(cur, i)
				rec()
				cur = cur[:len(cur)-1]
				left[i]++
			}
		}
	}
	rec()
	return out
}

func schedStr(s []int) string {
	var sb strings.Builder
	for _, t := range s {
		fmt.Fprintf(&sb, "%d ", t)
	}
	sb.WriteString(".")
	return sb.String()
}

func randSched(c *hx.Ctx, n, length int) string {
	var sb strings.Builder
	// PCT-flavoured: with probability 1/2 a thread keeps running
	cur := c.Rng.Intn(n)
	for i := 0; i < length; i++ {
		if c.Rng.Intn(2) == 0 {
			cur = c.Rng.Intn(n)
		}
		fmt.Fprintf(&sb, "%d ", cur)
	}
	sb.WriteString(".")
	return sb.String()
}

func mxSteps(prog string) int {
	n := 0
	for _, op := range strings.Fields(prog) {
		if op == "T" {
			n += 3
		} else {
			n++
		}
	}
	return n
}

func genMx(c *hx.Ctx) {
	progs := []string{"T", "T U", "T T", "U T"}
	inits := []int{0, 0, 8, 16, 2, 4, 6, 10, 12, 1, 9, 13, 24}
	if !c.Thorough() {
		inits = []int{0, 8, 2, 4, 10, 9}
	}
	// all interleavings, 2 threads x 1-2 ops, natural and constructed state words
	for _, init := range inits {
		for _, p := range progs {
			for _, q := range progs {
				for _, s := range interleavings([]int{mxSteps(p), mxSteps(q)}) {
					c.Emit("mx %d | %s / %s | %s", init, p, q, schedStr(s))
					c.Count("mx_2thr_exhaustive")
				}
			}
		}
	}
	// a TryLock thread against the real sync.Mutex Lock/Unlock: every sequence over {step, L, R}
	L := c.Budget(5, 7)
	alpha := []string{"0", "L", "R"}
	for _, p := range []string{"T", "T U", "T U T"} {
		var rec func(prefix []string, nl int)
		rec = func(prefix []string, nl int) {
			if len(prefix) > 0 {
				c.Emit("mx 0 | %s | %s .", p, strings.Join(prefix, " "))
				c.Count("mx_vs_real_exhaustive")
			}
			if len(prefix) == L {
				return
			}
			for _, a := range alpha {
				if a == "L" && nl >= 3 {
					continue
				}
				n2 := nl
				if a == "L" {
					n2++
				}
				rec(append(prefix, a), n2)
			}
		}
		rec(nil, 0)
	}
	// random: 2-4 threads, longer programs, real Lock/Unlock traffic in between
	N := c.Budget(1500, 30000)
	for i := 0; i < N; i++ {
		n := c.Rng.Range(2, 4)
		var ps []string
		steps := 0
		for t := 0; t < n; t++ {
			var ops []string
			for k := c.Rng.Range(1, 3); k > 0; k-- {
				if c.Rng.Intn(3) == 0 {
					ops = append(ops, "U")
				} else {
					ops = append(ops, "T")
					if c.Rng.Intn(2) == 0 {
						ops = append(ops, "U")
					}
				}
			}
			ps = append(ps, strings.Join(ops, " "))
			steps += mxSteps(ps[t])
		}
		init := 0
		if c.Rng.Intn(4) == 0 {
			init = c.Rng.Pick([]int{8, 16, 2, 4, 6, 10, 12, 1, 9, 13, 24, 32, 3})
		}
		var sb strings.Builder
		cur := c.Rng.Intn(n)
		nl := 0
		for k := 0; k < steps; k++ {
			if init == 0 && c.Rng.Intn(5) == 0 {
				if c.Rng.Bool() && nl < 4 {
					sb.WriteString("L ")
					nl++
				} else {
					sb.WriteString("R ")
				}
			}
			if c.Rng.Intn(2) == 0 {
				cur = c.Rng.Intn(n)
			}
			fmt.Fprintf(&sb, "%d ", cur)
		}
		c.Emit("mx %d | %s | %s.", init, strings.Join(ps, " / "), sb.String())
		c.Count("mx_random")
	}
}

func genFl(c *hx.Ctx) {
	ops := []string{"A1", "A2", "A3", "R1", "R2", "H1", "H2"}
	// 2 threads x 1 op: every tid sequence of length 6 (one retry each), then drain
	for _, init := range []int{0, 3} {
		for _, p := range ops {
			for _, q := range ops {
				for m := 0; m < 64; m++ {
					s := make([]int, 6)
					for k := range s {
						s[k] = m >> uint(k) & 1
					}
					c.Emit("fl %d | %s / %s | %s", init, p, q, schedStr(s))
					c.Count("fl_2thr_1op_exhaustive")
				}
			}
		}
	}
	// 2 threads x 2 ops: all interleavings of 4+4 steps (quick: sampled program pairs; thorough: all)
	il := interleavings([]int{4, 4})
	for _, p1 := range ops {
		for _, p2 := range ops {
			for _, q1 := range ops {
				for _, q2 := range ops {
					if !c.Thorough() && c.Rng.Intn(40) != 0 {
						continue
					}
					for _, s := range il {
						c.Emit("fl %d | %s %s / %s %s | %s", c.Rng.Intn(4), p1, p2, q1, q2, schedStr(s))
						c.Count("fl_2thr_2op_exhaustive")
					}
				}
			}
		}
	}
	// all 64 bit positions, conflicting pairs, the schedules that open the load/CAS gap
	conflict := []string{"0 1 0 1 .", "0 1 1 0 .", "1 0 0 1 .", "0 0 1 1 .", "1 0 1 0 0 1 ."}
	for b := 0; b < 64; b++ {
		f1 := int64(1) << uint(b)
		f2 := int64(1) << uint((b+1)%64)
		for _, init := range []int64{0, -1} {
			for _, pat := range []string{"A%d / A%d", "A%d / R%d", "R%d / A%d", "R%d / R%d"} {
				for _, g := range []int64{f2, f1, f1 | f2} {
					for _, s := range conflict {
						c.Emit("fl %d | "+pat+" H%d | %s", init, f1, g, f1, s)
						c.Count("fl_bit_positions")
					}
				}
			}
		}
	}
	// random: 2-4 threads, arbitrary 64-bit flags
	N := c.Budget(1500, 40000)
	for i := 0; i < N; i++ {
		n := c.Rng.Range(2, 4)
		var ps []string
		steps := 0
		for t := 0; t < n; t++ {
			var o []string
			for k := c.Rng.Range(1, 3); k > 0; k-- {
				var f int64
				switch c.Rng.Intn(3) {
				case 0:
					f = int64(1) << uint(c.Rng.Intn(64))
				case 1:
					f = int64(c.Rng.U64())
				default:
					f = int64(c.Rng.U64() & c.Rng.U64() & c.Rng.U64())
				}
				o = append(o, fmt.Sprintf("%c%d", "AARH"[c.Rng.Intn(4)], f))
				steps += 3
			}
			ps = append(ps, strings.Join(o, " "))
		}
		c.Emit("fl %d | %s | %s", int64(c.Rng.U64()&c.Rng.U64()), strings.Join(ps, " / "), randSched(c, n, steps))
		c.Count("fl_random")
	}
}

func genAi(c *hx.Ctx) {
	il2 := interleavings([]int{2, 2})
	il44 := interleavings([]int{4, 4})
	il3 := interleavings([]int{2, 2, 2})
	for init := -3; init <= 3; init++ {
		for d := -3; d <= 3; d++ {
			for lim := -3; lim <= 3; lim++ {
				// 2 contending threads, one call each: all orders of the two load/CAS pairs (the loser retries in the drain)
				for _, s := range il2 {
					c.Emit("ai %d %d | D%d / D%d | %s", init, lim, d, d, schedStr(s))
					c.Count("ai_triples_2thr")
				}
				// 3 contending threads: all orders of the three load/CAS pairs
				for _, s := range il3 {
					if !c.Thorough() && c.Rng.Intn(6) != 0 {
						continue
					}
					c.Emit("ai %d %d | D%d / D%d / D%d | %s", init, lim, d, d, d, schedStr(s))
					c.Count("ai_triples_3thr")
				}
				// two calls each, mixed deltas
				for _, s := range il44 {
					if c.Rng.Intn(c.Budget(20, 2)) != 0 {
						continue
					}
					c.Emit("ai %d %d | D%d D%d / D%d D%d | %s", init, lim, d, c.Rng.Range(-3, 3), d, c.Rng.Range(-3, 3), schedStr(s))
					c.Count("ai_triples_2thr_2op")
				}
			}
		}
	}
	// random: 2-4 threads, larger values incl. the int64 boundary
	N := c.Budget(1000, 30000)
	for i := 0; i < N; i++ {
		n := c.Rng.Range(2, 4)
		var ps []string
		steps := 0
		base := int64(0)
		if c.Rng.Intn(8) == 0 {
			base = int64(1)<<62 - 5
		}
		for t := 0; t < n; t++ {
			var o []string
			for k := c.Rng.Range(1, 3); k > 0; k-- {
				o = append(o, fmt.Sprintf("D%d", c.Rng.Range(-5, 9)))
				steps += 3
			}
			ps = append(ps, strings.Join(o, " "))
		}
		c.Emit("ai %d %d | %s | %s", base+int64(c.Rng.Range(-4, 4)), base+int64(c.Rng.Range(-2, 12)), strings.Join(ps, " / "), randSched(c, n, steps))
		c.Count("ai_random")
	}
}

func genCnt(c *hx.Ctx) {
	for h := 0; h <= 1; h++ {
		for k := 0; k <= 6; k++ {
			c.Emit("cnt real %d %d", h, k)
			c.Count("cnt_real")
		}
	}
	for _, wt := range []int64{0, 1, 2, 3, 4, 5, 6, 7, 8, 100, 1<<28 - 1} {
		for low := int64(0); low < 8; low++ {
			c.Emit("cnt raw %d", wt<<3|low)
			c.Count("cnt_raw")
		}
	}
	for _, w := range []int64{-1, -8, -7, -2147483648, 2147483647} {
		c.Emit("cnt raw %d", w)
		c.Count("cnt_raw_offdomain")
	}
	for i := 0; i < c.Budget(200, 5000); i++ {
		c.Emit("cnt raw %d", int32(c.Rng.U64()>>uint(c.Rng.Range(33, 63))))
		c.Count("cnt_raw_random")
	}
}

// starveSched: k rounds of `victim load; adversary: one complete call (2 steps); victim CAS (fails)`, then the victim's
// next load, one more complete adversary call, and the drain.
func starveSched(k, advSteps int) string {
	var sb strings.Builder
	for r := 0; r < k; r++ {
		sb.WriteString("0 ")
		for i := 0; i < advSteps; i++ {
			sb.WriteString("1 ")
		}
		sb.WriteString("0 ")
	}
	sb.WriteString("0 ")
	for i := 0; i < advSteps; i++ {
		sb.WriteString("1 ")
	}
	sb.WriteString(".")
	return sb.String()
}

// genStarve: a victim call loses its CAS k times in a row inside ONE call (k in 1..20, 32) because an adversary completes
// a call that changes the word between each of the victim's loads and the following CAS; then one more adversary call
// lands between the victim's next load and its next step. Bounded-retry variants of the loops (fallbacks after n lost
// rounds) are only reachable through this class.
func genStarve(c *hx.Ctx) {
	var ks []int
	for k := 1; k <= 20; k++ {
		ks = append(ks, k)
	}
	ks = append(ks, 32)
	flagCase := func(k int, init int64, vop byte, vbit, abit uint) {
		vf := int64(1) << (vbit % 64)
		af := int64(1) << (abit % 64)
		// the adversary alternates AddFlag/RemoveFlag on its bit, starting with the call that changes the word
		first := byte('A')
		if init&af != 0 {
			first = 'R'
		}
		var adv []string
		op := first
		for i := 0; i <= k; i++ {
			adv = append(adv, fmt.Sprintf("%c%d", op, af))
			if op == 'A' {
				op = 'R'
			} else {
				op = 'A'
			}
		}
		c.Emit("fl %d | %c%d H%d / %s | %s", init, vop, vf, vf, strings.Join(adv, " "), starveSched(k, 2))
		c.Count("starve_flag")
	}
	for _, k := range ks {
		for _, vop := range []byte{'A', 'R'} {
			for _, vbit := range []uint{0, 2, 31, 62, 63} {
				for _, d := range []uint{0, 1, 63} { // same bit, upper neighbour, lower neighbour
					for _, init := range []int64{0, -1, int64(1) << (vbit % 64)} {
						flagCase(k, init, vop, vbit, vbit+d)
					}
				}
			}
		}
	}
	// every bit position at the typical bounds of a bounded spin (8, 16, 17), adversary on the same bit
	for _, k := range []int{8, 16, 17} {
		for b := uint(0); b < 64; b++ {
			flagCase(k, 0, 'A', b, b)
			flagCase(k, -1, 'R', b, b)
		}
	}
	// AddIf64: the adversary moves the counter up and down just below the limit (the victim's test keeps passing, its CAS
	// keeps failing); the last adversary call moves it to / next to the limit
	for _, k := range ks {
		for _, vd := range []int{0, 1, -1, 2} {
			for _, last := range []int{1, 2, 3, -2} {
				for _, lim := range []int{0, 3, -3} {
					init := lim - 3
					if vd == 2 {
						init = lim - 4
					}
					var adv []string
					v := init
					for i := 0; i < k; i++ {
						if i%2 == 0 {
							adv = append(adv, "D1")
							v++
						} else {
							adv = append(adv, "D-1")
							v--
						}
					}
					adv = append(adv, fmt.Sprintf("D%d", last))
					c.Emit("ai %d %d | D%d / %s | %s", init, lim, vd, strings.Join(adv, " "), starveSched(k, 2))
					c.Count("starve_addif")
				}
			}
		}
	}
	// TryLock has no loop: its second CAS can be lost once (the adversary completes a TryLock, or TryLock+Unlock, between
	// the victim's load and its CAS)
	for _, init := range []int{8, 16, 24} {
		for _, adv := range []string{"T", "T U", "T U T"} {
			c.Emit("mx %d | T U / %s | 0 0 %s0 .", init, adv, strings.Repeat("1 ", mxSteps(adv)))
			c.Count("starve_trylock")
		}
	}
}

func gen(c *hx.Ctx) {
	genCnt(c)
	genStarve(c)
	genMx(c)
	genFl(c)
	genAi(c)
}
