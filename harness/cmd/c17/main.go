// C17 harness (build tags: verif): loom.Mutex.TryLock / Count, loom.Flag, loom.AddIf64 under the controlled scheduler.
//
//	mx <initword> | <prog> / <prog> ... | <sched> .     ops: T (TryLock)  U (Unlock if this thread holds the mutex)
//	fl <init>     | <prog> / ...        | <sched> .     ops: A<f> R<f> H<f>   (AddFlag / RemoveFlag / HasFlag)
//	ai <init> <limit> | <prog> / ...    | <sched> .     ops: D<delta>   AddIf64(&x, delta, old+delta <= limit)
//	cnt real <held> <k>     Count() of a real mutex: held by the harness or not, then k goroutines call Lock
//	cnt raw <word>          Count() of a scratch mutex whose state word was overwritten
//
// sched: thread ids = one controlled step each (the access the thread is parked before + the code up to its next
// yield point); for mx also L (a fresh goroutine calls the real sync.Mutex.Lock; the harness waits until it holds the
// mutex or the state word shows it queued) and R (the goroutine that holds the mutex through Lock calls Unlock).
// After the schedule the live threads are stepped round-robin until all have finished.
// output: `<tid>.<site>:<word after>[=<result>]` per step, `<tid>.-` for a finished thread, `L:<word>`, `R:<word>`,
// `end=<word>`, for mx `occ=<maximal number of goroutines simultaneously inside the critical section>`.
package main

import (
	"fmt"
	"strconv"
	"strings"
	"sync"
	"sync/atomic"
	"time"

	"github.com/lixianmin/got/loom"
	"verif/harness/csched"
	"verif/harness/hx"
)

type sim struct {
	s    *csched.Sched
	n    int
	ret  []string       // result of the op completed by the last step of thread i ("" = none)
	obs  func() string  // the shared word after a step
	env  func(tok string) string
	post func(tid int, ret string) // called by the controller after each controlled step
}

func (m *sim) stepTok(t int) string {
	if t < 0 || t >= m.n || !m.s.Live(t) {
		return fmt.Sprintf("%d.-", t)
	}
	site := m.s.Pending(t).Site
	ev := m.s.Step(t)
	if ev.Blocked {
		return fmt.Sprintf("%d.%d:blocked", t, site)
	}
	r := m.ret[t]
	m.ret[t] = ""
	if m.post != nil {
		m.post(t, r)
	}
	return fmt.Sprintf("%d.%d:%s%s", t, site, m.obs(), r)
}

func (m *sim) run(sched []string) []string {
	var out []string
	for _, tok := range sched {
		if tok == "." {
			continue
		}
		if t, err := strconv.Atoi(tok); err == nil {
			out = append(out, m.stepTok(t))
		} else if m.env != nil {
			out = append(out, tok+":"+m.env(tok))
		} else {
			out = append(out, tok+":-")
		}
	}
	for fuel := 0; fuel < 100000; fuel++ {
		any := false
		var live []int
		for t := 0; t < m.n; t++ {
			if m.s.Live(t) {
				live = append(live, t)
			}
		}
		for _, t := range live {
			if m.s.Live(t) {
				out = append(out, m.stepTok(t))
				any = true
			}
		}
		if !any {
			break
		}
	}
	return out
}

func splitLine(line string) (head []string, progs [][]string, sched []string, ok bool) {
	parts := strings.Split(line, " | ")
	if len(parts) != 3 {
		return nil, nil, nil, false
	}
	head = strings.Fields(parts[0])
	for _, p := range strings.Split(parts[1], " / ") {
		progs = append(progs, strings.Fields(p))
	}
	sched = strings.Fields(parts[2])
	return head, progs, sched, true
}

// ---------------------------------------------------------------- mutex

type realG struct {
	acquired chan struct{}
	release  chan struct{}
	done     chan struct{}
}

func runMx(init int32, progs [][]string, sched []string) string {
	var m loom.Mutex
	if init != 0 {
		m.VerifSetMutexWord(init)
	}
	var occ, maxocc int32
	enter := func() {
		v := atomic.AddInt32(&occ, 1)
		for {
			o := atomic.LoadInt32(&maxocc)
			if v <= o || atomic.CompareAndSwapInt32(&maxocc, o, v) {
				break
			}
		}
	}
	leave := func() { atomic.AddInt32(&occ, -1) }

	n := len(progs)
	s := csched.New(n)
	s.Timeout = 20 * time.Second
	loom.VerifHook = s.Hook
	defer func() { loom.VerifHook = nil }()
	sm := &sim{s: s, n: n, ret: make([]string, n)}
	sm.obs = func() string { return strconv.Itoa(int(m.VerifMutexWord())) }
	held := make([]bool, n) // thread i holds the mutex through TryLock

	var parked []*realG
	var holder *realG
	stuck := false
	waitAcquire := func() { // one of the parked goroutines must take the mutex over
		deadline := time.Now().Add(20 * time.Second)
		for time.Now().Before(deadline) {
			for i, g := range parked {
				select {
				case <-g.acquired:
					holder = g
					parked = append(parked[:i:i], parked[i+1:]...)
					return
				default:
				}
			}
			time.Sleep(20 * time.Microsecond)
		}
		stuck = true
	}
	sm.post = func(t int, r string) {
		if r == "=u" && len(parked) > 0 {
			waitAcquire()
		}
	}
	sm.env = func(tok string) string {
		switch tok {
		case "L":
			g := &realG{acquired: make(chan struct{}), release: make(chan struct{}), done: make(chan struct{})}
			before := m.VerifMutexWord()
			go func() {
				m.Lock()
				enter()
				close(g.acquired)
				<-g.release
				leave()
				m.Unlock()
				close(g.done)
			}()
			deadline := time.Now().Add(20 * time.Second)
			for {
				select {
				case <-g.acquired:
					holder = g
					return sm.obs()
				default:
				}
				w := m.VerifMutexWord()
				if w>>3 == before>>3+1 && w&2 == 0 {
					parked = append(parked, g)
					return sm.obs()
				}
				if time.Now().After(deadline) {
					stuck = true
					return "stuck"
				}
				time.Sleep(10 * time.Microsecond)
			}
		case "R":
			if holder == nil {
				return "-"
			}
			g := holder
			holder = nil
			close(g.release)
			<-g.done
			if len(parked) > 0 {
				waitAcquire()
			}
			return sm.obs()
		}
		return "-"
	}

	for i := 0; i < n; i++ {
		i, prog := i, progs[i]
		s.Start(i, func() {
			for _, op := range prog {
				switch op {
				case "T":
					ok := m.TryLock()
					if ok {
						enter()
						held[i] = true
						sm.ret[i] = "=1"
					} else {
						sm.ret[i] = "=0"
					}
				case "U":
					s.Hook(100, nil)
					if held[i] {
						held[i] = false
						leave()
						m.Unlock()
						sm.ret[i] = "=u"
					} else {
						sm.ret[i] = "=n"
					}
				}
			}
		})
	}
	out := sm.run(sched)
	out = append(out, "end="+sm.obs(), fmt.Sprintf("occ=%d", atomic.LoadInt32(&maxocc)))
	if stuck {
		out = append(out, "stuck")
	}
	// clean up: nobody may stay parked in Lock
	if init == 0 {
		for i := range held {
			if held[i] {
				held[i] = false
				m.Unlock()
				if len(parked) > 0 {
					waitAcquire()
				}
			}
		}
		for holder != nil && !stuck {
			g := holder
			holder = nil
			close(g.release)
			<-g.done
			if len(parked) > 0 {
				waitAcquire()
			}
		}
	}
	return strings.Join(out, " ")
}

// ---------------------------------------------------------------- flag

func runFl(init int64, progs [][]string, sched []string) string {
	var f loom.Flag = loom.Flag(init)
	n := len(progs)
	s := csched.New(n)
	s.Timeout = 20 * time.Second
	loom.VerifHook = s.Hook
	defer func() { loom.VerifHook = nil }()
	sm := &sim{s: s, n: n, ret: make([]string, n)}
	sm.obs = func() string { return strconv.FormatInt(atomic.LoadInt64((*int64)(&f)), 10) }
	for i := 0; i < n; i++ {
		i, prog := i, progs[i]
		s.Start(i, func() {
			for _, op := range prog {
				v, _ := strconv.ParseInt(op[1:], 10, 64)
				switch op[0] {
				case 'A':
					f.AddFlag(v)
					sm.ret[i] = "=r"
				case 'R':
					f.RemoveFlag(v)
					sm.ret[i] = "=r"
				case 'H':
					s.Hook(101, nil)
					if f.HasFlag(v) {
						sm.ret[i] = "=1"
					} else {
						sm.ret[i] = "=0"
					}
				}
			}
		})
	}
	out := sm.run(sched)
	out = append(out, "end="+sm.obs())
	return strings.Join(out, " ")
}

// ---------------------------------------------------------------- AddIf64

func runAi(init, limit int64, progs [][]string, sched []string) string {
	x := init
	n := len(progs)
	s := csched.New(n)
	s.Timeout = 20 * time.Second
	loom.VerifHook = s.Hook
	defer func() { loom.VerifHook = nil }()
	sm := &sim{s: s, n: n, ret: make([]string, n)}
	sm.obs = func() string { return strconv.FormatInt(atomic.LoadInt64(&x), 10) }
	for i := 0; i < n; i++ {
		i, prog := i, progs[i]
		s.Start(i, func() {
			for _, op := range prog {
				d, _ := strconv.ParseInt(op[1:], 10, 64)
				if loom.AddIf64(&x, d, func(old int64) bool { return old+d <= limit }) {
					sm.ret[i] = "=1"
				} else {
					sm.ret[i] = "=0"
				}
			}
		})
	}
	out := sm.run(sched)
	out = append(out, "end="+sm.obs())
	return strings.Join(out, " ")
}

// ---------------------------------------------------------------- Count

func cntReal(held bool, k int) string {
	var m loom.Mutex
	if held {
		m.Lock()
	}
	rel := make(chan struct{})
	var wg sync.WaitGroup
	expect := 0
	if held {
		expect = 1
	}
	for i := 0; i < k; i++ {
		wg.Add(1)
		go func() {
			defer wg.Done()
			m.Lock()
			<-rel
			m.Unlock()
		}()
		// wait until the state word shows this goroutine as the holder or as one more waiter
		expect++
		deadline := time.Now().Add(20 * time.Second)
		for {
			w := m.VerifMutexWord()
			if int(w>>3)+int(w&1) == expect && w&1 == 1 && w&6 == 0 {
				break
			}
			if time.Now().After(deadline) {
				return "stuck"
			}
			time.Sleep(10 * time.Microsecond)
		}
	}
	w := m.VerifMutexWord()
	c := m.Count()
	close(rel)
	if held {
		m.Unlock()
	}
	wg.Wait()
	return fmt.Sprintf("w=%d c=%d", w, c)
}

func exec(c *hx.Ctx, line string) string {
	w := strings.Fields(line)
	if len(w) == 0 {
		return ""
	}
	if w[0] == "cnt" {
		switch {
		case len(w) == 4 && w[1] == "real":
			h, _ := strconv.Atoi(w[2])
			k, _ := strconv.Atoi(w[3])
			return cntReal(h != 0, k)
		case len(w) == 3 && w[1] == "raw":
			v, _ := strconv.ParseInt(w[2], 10, 32)
			var m loom.Mutex
			m.VerifSetMutexWord(int32(v))
			return fmt.Sprintf("w=%d c=%d", m.VerifMutexWord(), m.Count())
		}
		return "bad-op"
	}
	head, progs, sched, ok := splitLine(line)
	if !ok || len(head) == 0 {
		return "bad-op"
	}
	switch {
	case head[0] == "mx" && len(head) == 2:
		v, _ := strconv.ParseInt(head[1], 10, 32)
		return runMx(int32(v), progs, sched)
	case head[0] == "fl" && len(head) == 2:
		v, _ := strconv.ParseInt(head[1], 10, 64)
		return runFl(v, progs, sched)
	case head[0] == "ai" && len(head) == 3:
		v, _ := strconv.ParseInt(head[1], 10, 64)
		l, _ := strconv.ParseInt(head[2], 10, 64)
		return runAi(v, l, progs, sched)
	}
	return "bad-op"
}

func main() { hx.Main(gen, exec) }
