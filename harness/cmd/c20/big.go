// C20 harness, large-population and size-boundary classes (kind=big).
//
//	ws <seed> <m> n=<totalNum> kind=big cls=<class> wb=<base> hv=<i:c,i:c,..|-> scale=<tok> ud=<digest> r=<ranks,..>
//	    the weights are described compactly and regenerated on both sides (here and in checklib/c20_big.py):
//	      w_i = c_i * scale,  c_i = hv[i] if i is listed in hv= (heavy items), else the base value
//	      wb=uni:C        c_i = C
//	      wb=rnd:S:LO:HI  c_i = LO + (uint32((i+1)*2654435761 + S*40503) >> 16) % (HI-LO+1)      (zero-free)
//	    the n uniform draws are those of the re-seeded math/rand stream (rand.Seed(seed); n times rand.Float64()); they are
//	    not recorded (a line would be 16 n characters longer), only their digest ud= = sum (i+1)*bits(u_i) mod 2^64: exec
//	    re-draws them and answers stream-mismatch when the digest differs; the oracle regenerates them with its own
//	    implementation of the generator (checklib/c20_gorand.py) and checks the same digest.
//	    r= are the order ranks of the n keys u_i^(1/w_i) (input of the Lean model), determined WITHOUT the
//	    implementation's float formula: indices are sorted by K_i = log c_i - log(-log u_i); every adjacent pair of that
//	    order is then certified: gap >= 1e-12 (else the case is not emitted), and
//	      both c <= 64 : exact big-integer comparison u_i^(c_j) vs u_j^(c_i) (equal c: the u themselves) must agree
//	      a heavy c    : the gap must exceed 1e-6 (rounding of any reasonable key formula is < 1e-12)
//	    so the emitted ranks are the true order of the real-valued keys, and every float evaluation of them with an
//	    error below 1e-12 realises the same order.
//	The same call form appears inside `wseq | ..` lines as `v <seed> <m> n=.. kind=big ..`; `pw <seed> <m> <n> <k>`
//	with a large n and k among the last indices checks that getWeight is consulted for the tail.
package main

import (
	"fmt"
	"math"
	"math/rand"
	"sort"
	"strconv"
	"strings"

	"github.com/lixianmin/got/randx"
	"verif/harness/hx"
)

const bigHeavy = int64(1) << 40 // a dominating weight: P[not selected first among 2^20 unit weights] < 1e-6

func scaleVal(tok string) (float64, bool) {
	for _, s := range scales() {
		if s.tok == tok {
			return s.val, true
		}
	}
	return 0, false
}

// bigCs regenerates the integer weight factors from the compact description
func bigCs(n int, wb, hv string) ([]int64, bool) {
	cs := make([]int64, n)
	p := strings.Split(wb, ":")
	switch {
	case len(p) == 2 && p[0] == "uni":
		v, err := strconv.ParseInt(p[1], 10, 64)
		if err != nil || v <= 0 {
			return nil, false
		}
		for i := range cs {
			cs[i] = v
		}
	case len(p) == 4 && p[0] == "rnd":
		s, e1 := strconv.ParseUint(p[1], 10, 32)
		lo, e2 := strconv.ParseInt(p[2], 10, 64)
		hi, e3 := strconv.ParseInt(p[3], 10, 64)
		if e1 != nil || e2 != nil || e3 != nil || lo <= 0 || hi < lo {
			return nil, false
		}
		span := uint32(hi - lo + 1)
		for i := range cs {
			x := uint32(uint64(i+1)*2654435761 + s*40503)
			cs[i] = lo + int64((x>>16)%span)
		}
	default:
		return nil, false
	}
	if hv != "-" && hv != "" {
		for _, t := range strings.Split(hv, ",") {
			q := strings.Split(t, ":")
			if len(q) != 2 {
				return nil, false
			}
			i, e1 := strconv.Atoi(q[0])
			v, e2 := strconv.ParseInt(q[1], 10, 64)
			if e1 != nil || e2 != nil || i < 0 || i >= n || v <= 0 {
				return nil, false
			}
			cs[i] = v
		}
	}
	return cs, true
}

// uDigest: sum of (i+1) * bits(u_i) mod 2^64, 16 hex digits
func uDigest(us []float64) string {
	var d uint64
	for i, u := range us {
		d += uint64(i+1) * math.Float64bits(u)
	}
	return fmt.Sprintf("%016x", d)
}

// execBig: w = ["ws"|"v", seed, m, fields...] with kind=big
func execBig(w []string) string {
	seed, _ := strconv.ParseInt(w[1], 10, 64)
	m, _ := strconv.Atoi(w[2])
	ns, _ := field(w, "n=")
	n, err := strconv.Atoi(ns)
	wb, _ := field(w, "wb=")
	hv, _ := field(w, "hv=")
	st, _ := field(w, "scale=")
	sc, okS := scaleVal(st)
	if err != nil || n <= 0 || !okS {
		return "bad-op"
	}
	cs, ok := bigCs(n, wb, hv)
	if !ok {
		return "bad-op"
	}
	weights := make([]float64, n)
	for i := range weights {
		weights[i] = float64(cs[i]) * sc
	}
	if ud, _ := field(w, "ud="); uDigest(drawU(seed, n)) != ud {
		return "stream-mismatch"
	}
	rand.Seed(seed)
	res := randx.WeightedSampling(m, n, func(i int) float64 { return weights[i] })
	buf := make([]byte, 0, 8*len(res)+2)
	buf = append(buf, 'r')
	for _, x := range res {
		buf = append(buf, ' ')
		buf = strconv.AppendInt(buf, int64(x), 10)
	}
	return string(buf)
}

// bigRanks: certified order ranks of the keys (see the file comment); why != "" = not certifiable, do not emit
func bigRanks(us []float64, cs []int64) (ranks []int, why string) {
	n := len(us)
	K := make([]float64, n)
	logc := map[int64]float64{}
	for i := 0; i < n; i++ {
		if !(us[i] > 0 && us[i] < 1) {
			return nil, "u_outside_0_1"
		}
		lc, ok := logc[cs[i]]
		if !ok {
			lc = math.Log(float64(cs[i]))
			logc[cs[i]] = lc
		}
		K[i] = lc - math.Log(-math.Log(us[i]))
	}
	idx := make([]int, n)
	for i := range idx {
		idx[i] = i
	}
	sort.Slice(idx, func(a, b int) bool { return K[idx[a]] < K[idx[b]] })
	for p := 0; p+1 < n; p++ {
		a, b := idx[p], idx[p+1] // claimed: key_a < key_b
		gap := K[b] - K[a]
		if !(gap >= 1e-12) {
			return nil, "near_tie"
		}
		switch {
		case cs[a] == cs[b]:
			if !(us[a] < us[b]) {
				return nil, "float_vs_exact_disagree"
			}
		case cs[a] <= 64 && cs[b] <= 64:
			if cmpKey(us[a], int(cs[a]), us[b], int(cs[b])) >= 0 {
				return nil, "float_vs_exact_disagree"
			}
		default:
			if !(gap > 1e-6) {
				return nil, "heavy_near_tie"
			}
		}
	}
	ranks = make([]int, n)
	for pos, i := range idx {
		ranks[i] = pos
	}
	return ranks, ""
}

type hvT struct {
	i int
	c int64
}

// one certified call in script form (without the leading "ws"/"v"); ok=false: not certifiable after retries
func (g *genState) bigCall(cls string, n, m int, wb string, hv []hvT, scale string) (string, bool) {
	c := g.c
	hs := "-"
	if len(hv) > 0 {
		p := make([]string, len(hv))
		for k, h := range hv {
			p[k] = fmt.Sprintf("%d:%d", h.i, h.c)
		}
		hs = strings.Join(p, ",")
	}
	cs, ok := bigCs(n, wb, hs)
	if !ok {
		panic("generator: bad weight description " + wb + " " + hs)
	}
	for attempt := 0; attempt < 8; attempt++ {
		seed := g.nextSeed()
		us := drawU(seed, n)
		ranks, why := bigRanks(us, cs)
		if why != "" {
			c.Count("big_retry_" + why)
			continue
		}
		rb := make([]byte, 0, 7*n)
		for i, x := range ranks {
			if i > 0 {
				rb = append(rb, ',')
			}
			rb = strconv.AppendInt(rb, int64(x), 10)
		}
		return fmt.Sprintf("%d %d n=%d kind=big cls=%s wb=%s hv=%s scale=%s ud=%s r=%s", seed, m, n, cls, wb, hs, scale, uDigest(us), rb), true
	}
	c.Count("big_dropped")
	return "", false
}

func sizeClass(n int) string {
	switch {
	case n >= 1<<20:
		return "n_ge_2p20"
	case n >= 1<<17:
		return "n_2p17_2p20"
	case n >= 1<<16:
		return "n_2p16_2p17"
	case n >= 1<<15:
		return "n_2p15_2p16"
	case n >= 1<<12:
		return "n_2p12_2p15"
	}
	return "n_lt_2p12"
}

// the weight shapes: where the weight mass sits relative to the index range
var bigShapes = []string{"uni", "rnd", "tail1", "tailall", "head1", "ends", "scatter"}

func (g *genState) bigShape(shape string, n int) (wb string, hv []hvT) {
	r := g.c.Rng
	base := func() string {
		switch r.Intn(3) {
		case 0:
			return "uni:1"
		case 1:
			return fmt.Sprintf("uni:%d", r.Range(2, 5))
		}
		return fmt.Sprintf("rnd:%d:1:%d", r.Intn(1<<20), r.Range(2, 4))
	}
	t16 := 16
	if t16 > n {
		t16 = n
	}
	switch shape {
	case "uni":
		return fmt.Sprintf("uni:%d", r.Range(1, 3)), nil
	case "rnd": // zero-free random weights
		return fmt.Sprintf("rnd:%d:1:8", r.Intn(1<<20)), nil
	case "tail1": // one dominating item among the last 16 indices
		return base(), []hvT{{n - 1 - r.Intn(t16), bigHeavy}}
	case "tailall": // each of the last t indices dominates (distinct heavy weights)
		t := r.Range(1, t16)
		for k := 0; k < t; k++ {
			hv = append(hv, hvT{n - 1 - k, bigHeavy + int64(r.Intn(1000))})
		}
		return base(), hv
	case "head1":
		return base(), []hvT{{r.Intn(t16), bigHeavy}}
	case "ends": // first, middle, last
		hv = []hvT{{0, bigHeavy}}
		if n >= 3 {
			hv = append(hv, hvT{n / 2, bigHeavy + 1})
		}
		if n >= 2 {
			hv = append(hv, hvT{n - 1, bigHeavy + 2})
		}
		return base(), hv
	}
	// scatter: a few dominating items anywhere
	seen := map[int]bool{}
	for k := r.Range(1, 4); k > 0; k-- {
		i := r.Intn(n)
		if !seen[i] {
			seen[i] = true
			hv = append(hv, hvT{i, bigHeavy + int64(k)})
		}
	}
	return base(), hv
}

var bigScales = []string{"1", "0.1", "1e-3", "1e6", "1e-9"}

// sampleNum relative to the population and to the number of dominating items
func (g *genState) bigM(n, heavies int) (int, string) {
	r := g.c.Rng
	clamp := func(m int) int {
		if m < 1 {
			return 1
		}
		if m > n {
			return n
		}
		return m
	}
	switch r.Intn(9) {
	case 0:
		return 1, "m_1"
	case 1:
		return clamp(2), "m_2"
	case 2:
		return clamp(r.Range(3, 40)), "m_small"
	case 3:
		if heavies > 0 {
			return clamp(heavies), "m_eq_heavies"
		}
		return clamp(r.Range(3, 40)), "m_small"
	case 4:
		if heavies > 0 {
			return clamp(heavies + r.Range(1, 3)), "m_gt_heavies"
		}
		return clamp(n / 2), "m_half"
	case 5:
		return clamp(n - 1), "m_n_minus_1"
	case 6:
		return clamp(n - r.Range(2, 16)), "m_near_n"
	case 7:
		return clamp(n / 2), "m_half"
	}
	return n, "m_n"
}

// modelCost estimates the work of the Lean model on one call: Got.Model.GoHeap.push copies the heap array on every
// push (the array is still referenced when it is extended), so a call costs about m^2 * (1 + ln(n/m)) element copies
// (1e9 is roughly 1.7 s). Calls above the per-line cap are not generated in that tier.
func modelCost(n, m int) float64 {
	return float64(m) * float64(m) * (1 + math.Log(float64(n)/float64(m)))
}

func (g *genState) lineCap() float64 {
	if g.c.Thorough() {
		return 1e9
	}
	return 6e7
}

func (g *genState) emitBig(cls string, n int, shape string, m int, mcls string) bool {
	c := g.c
	wb, hv := g.bigShape(shape, n)
	if m <= 0 {
		m, mcls = g.bigM(n, len(hv))
		if modelCost(n, m) > g.lineCap() {
			m, mcls = c.Rng.Range(3, 40), "m_small"
			c.Count("ws_big_m_capped")
		}
	}
	return g.emitFixed(cls, n, shape, wb, hv, m, mcls)
}

func genBig(c *hx.Ctx, g *genState) {
	r := c.Rng
	// A. populations between the small classes (n <= 60) and the large ones: log-uniform sizes
	for i := 0; i < c.Budget(120, 1500); i++ {
		n := int(math.Exp(math.Log(41) + float64(r.U64()>>11)/(1<<53)*(math.Log(20000)-math.Log(41))))
		g.emitBig("mid", n, bigShapes[r.Intn(len(bigShapes))], 0, "")
	}
	// B. size boundaries: 2^k + d for every k up to 15 (buffer / batching / sharding thresholds sit at such sizes):
	//    sample all, all but one, and a random sampleNum
	for k := 6; k <= 15; k++ {
		for _, d := range []int{-1, 0, 1, 7} {
			n := (1 << k) + d
			if k <= 11 || (k <= 13 && d == 7) || (c.Thorough() && (k <= 13 || d == 0 || d == 7)) { // model cost: see modelCost
				g.emitBig("pow2", n, "uni", n, "m_n")
				if k <= 12 || c.Thorough() {
					g.emitBig("pow2", n, "rnd", n-1, "m_n_minus_1")
				}
			}
			reps := c.Budget(1, 4)
			if k <= 12 {
				reps = c.Budget(2, 6)
			}
			for rep := 0; rep < reps; rep++ {
				g.emitBig("pow2", n, bigShapes[r.Intn(len(bigShapes))], 0, "")
			}
		}
	}
	// C. large populations, around and above 2^16: sampleNum 1, 2, small; n-1 and n in the thorough tier (model cost)
	sizes := []int{65535, 65536, 65537, 65543, 100003, 1<<17 + 5}
	if c.Thorough() {
		sizes = append(sizes, 1<<16+2, 1<<16+4, 1<<17-1, 1<<17, 3<<16+6, 1<<18+1, 250007)
		for i := 0; i < 6; i++ {
			sizes = append(sizes, r.Range(1<<16-8, 1<<18))
		}
	}
	for si, n := range sizes {
		// "every index can be selected": a dominating weight on one of the last positions (m = 1), and on all of
		// the last 16 at once (m = 16: the result must be exactly the tail)
		tails := []int{0, r.Range(1, 15)}
		if c.Thorough() {
			tails = []int{0, 1, 2, 3, 4, 5, 6, 7, 8, 11, 15}
		}
		for _, t := range tails {
			g.emitFixed("large", n, "tail1", fmt.Sprintf("uni:%d", r.Range(1, 2)), []hvT{{n - 1 - t, bigHeavy}}, 1, "m_1")
		}
		var all []hvT
		for k := 0; k < 16; k++ {
			all = append(all, hvT{n - 1 - k, bigHeavy + int64(k)})
		}
		g.emitFixed("large", n, "tailall", "uni:1", all, 16, "m_eq_heavies")
		g.emitBig("large", n, "ends", 3, "m_eq_heavies")
		g.emitBig("large", n, "rnd", r.Range(3, 40), "m_small")
		if n < 1<<17 || c.Thorough() {
			g.emitBig("large", n, "head1", 2, "m_2")
			g.emitBig("large", n, bigShapes[r.Intn(len(bigShapes))], 0, "")
		}
		if c.Thorough() {
			for i := 0; i < 4; i++ {
				g.emitBig("large", n, bigShapes[r.Intn(len(bigShapes))], 0, "")
			}
			// sample the whole population / all but one: ~10 s of model time each (and again in the driver's ast pass)
			if si == 1 || si == 3 {
				g.emitBig("large", n, "uni", n, "m_n")
			}
			if si == 2 {
				g.emitBig("large", n, "rnd", n-1, "m_n_minus_1")
			}
		}
	}
	if c.Thorough() {
		n := 1<<20 + 3
		g.emitFixed("huge", n, "tail1", "uni:1", []hvT{{n - 1 - r.Intn(3), bigHeavy}}, 1, "m_1")
		g.emitBig("huge", n, "tailall", 16, "m_small")
		g.emitBig("huge", n, "rnd", r.Range(3, 40), "m_small")
	}
	// D. several calls in one process with large populations: large after small after large, and a callback that
	//    panics at one of the LAST indices of a large population (getWeight must be consulted there), then valid calls
	for i := 0; i < c.Budget(3, 12); i++ {
		pick := func() int { return sizes[r.Intn(len(sizes))] }
		var calls []string
		add := func(n int, shape string, m int) bool {
			wb, hv := g.bigShape(shape, n)
			if m <= 0 {
				m, _ = g.bigM(n, len(hv))
				if modelCost(n, m) > g.lineCap() {
					m = r.Range(3, 40)
				}
			}
			call, ok := g.bigCall("seq", n, m, wb, hv, bigScales[r.Intn(len(bigScales))])
			if ok {
				calls = append(calls, "v "+call)
			}
			return ok
		}
		good := true
		switch i % 3 {
		case 0:
			n := pick()
			calls = append(calls, fmt.Sprintf("pw %d %d %d %d", g.nextSeed(), []int{1, 5, n / 2, n}[r.Intn(4)], n, n-1-r.Intn(8)))
			good = add(r.Range(2, 200), "rnd", 0) && add(pick(), "tail1", r.Range(1, 3))
			c.Count("wseq_big_panic_at_tail")
		case 1:
			good = add(pick(), "uni", r.Range(1000, 4000)) && add(r.Range(2, 50), "rnd", 0) && add(pick(), "tailall", 16)
			c.Count("wseq_big_large_small_large")
		default:
			good = add(r.Range(40, 4000), "scatter", 0) && add(pick(), "tail1", 1) && add(r.Range(2, 50), "ends", 0)
			c.Count("wseq_big_small_large_small")
		}
		if good {
			c.Emit("wseq | %s", strings.Join(calls, " ; "))
			c.Count("wseq_big")
		}
	}
}

func (g *genState) emitFixed(cls string, n int, shape, wb string, hv []hvT, m int, mcls string) bool {
	c := g.c
	call, ok := g.bigCall(cls, n, m, wb, hv, bigScales[c.Rng.Intn(len(bigScales))])
	if !ok {
		return false
	}
	c.Emit("ws %s", call)
	c.Count("ws_big")
	c.Count("ws_big_" + cls)
	c.Count("ws_big_" + sizeClass(n))
	c.Count("ws_big_shape_" + shape)
	c.Count("ws_big_" + mcls)
	return true
}
