// C20 harness: randx.WeightedSampling on a seeded math/rand stream.
//
//	ws <seed> <m> w=<bits,..> u=<bits,..> r=<ranks,..> [c=<ints> scale=<tok>] [n=<totalNum override>] kind=<..>
//	    exec: rand.Seed(seed); draw n = |w| values of rand.Float64() and check that they are the u= values
//	    (float64 bit patterns, hex); rand.Seed(seed) again; WeightedSampling(m, n, i -> w[i])
//	    -> r <i0> <i1> ...  |  panic <invalid|makecap|index|other:..>  |  stream-mismatch
//	    r= are the order ranks of the keys u_i^(1/w_i) the generator determined (used by the Lean driver):
//	      kind=ex    w_i = c_i*scale, ranks computed EXACTLY with big integers from u_i^(c_j) vs u_j^(c_i)
//	                 (independent of the implementation's float formula); near-ties (|Δ log key| < 1e-9) are not emitted
//	      kind=perm  weights arranged so that the float key of index i is exactly 600 + r_i (distinct levels)
//	      kind=tie   same with repeated levels (exact float ties)
//	      kind=off   weights outside the property's domain: 0 (key -Inf), +Inf (key +Inf), negative (key NaN -> rank "nan")
//	      kind=panic argument combinations that must panic
//	wseq | <call> ; <call> ; ...    several calls one after the other in THIS process (state carried across calls):
//	    v <seed> <m> w=.. u=.. r=.. [c= scale=] kind=..   a valid call, exactly as `ws`
//	    pw <seed> <m> <n> <k>    getWeight panics at index k (weights 1.0 before); the caller recovers   -> panic callback
//	    nil <m> <n>              nil getWeight                                                          -> panic nil
//	    pa <m> <n>               invalid arguments (panic by contract)                                  -> panic invalid|makecap|index
//	    -> the answers joined by " ; "
//	stat <seed> <trials> <m> w=<bits,..>
//	    -> freq <ok|FAIL> n=<trials> c=<mask:count,..> [first deviation]      (mask = bit set of the returned indices)
package main

import (
	"fmt"
	"math"
	"math/big"
	"math/rand"
	"sort"
	"strconv"
	"strings"

	"github.com/lixianmin/got/randx"
	"verif/harness/hx"
)

// ---------------------------------------------------------------- helpers

func drawU(seed int64, n int) []float64 {
	rand.Seed(seed)
	us := make([]float64, n)
	for i := range us {
		us[i] = rand.Float64()
	}
	return us
}

func bitsList(xs []float64) string {
	p := make([]string, len(xs))
	for i, x := range xs {
		p[i] = strconv.FormatUint(math.Float64bits(x), 16)
	}
	return strings.Join(p, ",")
}

func parseBits(s string) []float64 {
	if s == "" {
		return nil
	}
	var out []float64
	for _, t := range strings.Split(s, ",") {
		b, err := strconv.ParseUint(t, 16, 64)
		if err != nil {
			panic("bad bits in script: " + t)
		}
		out = append(out, math.Float64frombits(b))
	}
	return out
}

func field(w []string, pre string) (string, bool) {
	for _, t := range w {
		if strings.HasPrefix(t, pre) {
			return t[len(pre):], true
		}
	}
	return "", false
}

func canonPanic(r any) string {
	msg := fmt.Sprint(r)
	switch {
	case strings.Contains(msg, "invalid inputs"):
		return "panic invalid"
	case strings.Contains(msg, "makeslice"):
		return "panic makecap"
	case strings.Contains(msg, "index out of range"):
		return "panic index"
	case strings.Contains(msg, "callback-panics-here"):
		return "panic callback"
	case strings.Contains(msg, "nil pointer dereference"):
		return "panic nil"
	}
	return "panic other:" + strings.ReplaceAll(msg, " ", "_")
}

func intsJoin(xs []int) string {
	p := make([]string, len(xs))
	for i, x := range xs {
		p[i] = strconv.Itoa(x)
	}
	return strings.Join(p, ",")
}

// ---------------------------------------------------------------- execution

// one valid-looking call: w = ["ws"|"v", seed, m, fields...]
func execWs(w []string) (out string) {
	defer func() {
		if r := recover(); r != nil {
			out = canonPanic(r)
		}
	}()
	if k, _ := field(w, "kind="); k == "big" {
		return execBig(w) // large populations: compact weight description, see big.go
	}
	seed, _ := strconv.ParseInt(w[1], 10, 64)
	m, _ := strconv.Atoi(w[2])
	ws, _ := field(w, "w=")
	us, _ := field(w, "u=")
	weights, want := parseBits(ws), parseBits(us)
	n := len(weights)
	got := drawU(seed, n)
	for i := range got {
		if i >= len(want) || math.Float64bits(got[i]) != math.Float64bits(want[i]) {
			return "stream-mismatch"
		}
	}
	total := n
	if ov, ok := field(w, "n="); ok {
		total, _ = strconv.Atoi(ov)
	}
	rand.Seed(seed)
	res := randx.WeightedSampling(m, total, func(i int) float64 { return weights[i] })
	parts := []string{"r"}
	for _, x := range res {
		parts = append(parts, strconv.Itoa(x))
	}
	return strings.Join(parts, " ")
}

// a call that panics (in the callback or by contract); the panic is recovered here, as a request-level recover would
func execPanicCall(w []string) (out string) {
	defer func() {
		if r := recover(); r != nil {
			out = canonPanic(r)
		}
	}()
	var res []int
	switch {
	case w[0] == "pw" && len(w) == 5:
		seed, _ := strconv.ParseInt(w[1], 10, 64)
		m, _ := strconv.Atoi(w[2])
		n, _ := strconv.Atoi(w[3])
		k, _ := strconv.Atoi(w[4])
		rand.Seed(seed)
		res = randx.WeightedSampling(m, n, func(i int) float64 {
			if i == k {
				panic("callback-panics-here")
			}
			return 1.0
		})
	case w[0] == "nil" && len(w) == 3:
		m, _ := strconv.Atoi(w[1])
		n, _ := strconv.Atoi(w[2])
		res = randx.WeightedSampling(m, n, nil)
	case w[0] == "pa" && len(w) == 3:
		m, _ := strconv.Atoi(w[1])
		n, _ := strconv.Atoi(w[2])
		res = randx.WeightedSampling(m, n, func(i int) float64 { return 1.0 })
	default:
		return "bad-op"
	}
	return "returned " + strings.ReplaceAll(fmt.Sprint(res), " ", ",")
}

func execSeq(body string) string {
	var outs []string
	for _, call := range strings.Split(body, " ; ") {
		w := strings.Fields(call)
		switch {
		case len(w) >= 3 && w[0] == "v":
			outs = append(outs, execWs(w))
		case len(w) >= 1:
			outs = append(outs, execPanicCall(w))
		default:
			outs = append(outs, "bad-op")
		}
	}
	return strings.Join(outs, " ; ")
}

func exec(c *hx.Ctx, line string) (out string) {
	if strings.HasPrefix(line, "wseq | ") {
		return execSeq(line[7:])
	}
	defer func() {
		if r := recover(); r != nil {
			out = canonPanic(r)
		}
	}()
	w := strings.Fields(line)
	switch w[0] {
	case "ws":
		return execWs(w)
	case "stat":
		seed, _ := strconv.ParseInt(w[1], 10, 64)
		trials, _ := strconv.Atoi(w[2])
		m, _ := strconv.Atoi(w[3])
		ws, _ := field(w, "w=")
		return stat(seed, trials, m, parseBits(ws))
	}
	return "bad-op"
}

// statistical phase: empirical distribution of the returned index SET over `trials` calls
func stat(seed int64, trials, m int, weights []float64) string {
	n := len(weights)
	rand.Seed(seed)
	counts := map[int]int{}
	get := func(i int) float64 { return weights[i] }
	for t := 0; t < trials; t++ {
		res := randx.WeightedSampling(m, n, get)
		mask := 0
		for _, i := range res {
			if i < 0 || i >= 62 {
				return fmt.Sprintf("freq FAIL n=%d c=- index %d out of range", trials, i)
			}
			mask |= 1 << uint(i)
		}
		counts[mask]++
	}
	masks := make([]int, 0, len(counts))
	for k := range counts {
		masks = append(masks, k)
	}
	sort.Ints(masks)
	parts := make([]string, len(masks))
	for i, k := range masks {
		parts[i] = fmt.Sprintf("%d:%d", k, counts[k])
	}
	verdict, why := "ok", ""
	// expected probabilities (exact rationals): m = 1: w_i/W ; m = 2: p_i p_j/(1-p_i) + p_j p_i/(1-p_j)
	W := new(big.Rat)
	rw := make([]*big.Rat, n)
	for i, x := range weights {
		rw[i] = new(big.Rat).SetFloat64(x)
		W.Add(W, rw[i])
	}
	p := make([]*big.Rat, n)
	for i := range rw {
		p[i] = new(big.Rat).Quo(rw[i], W)
	}
	exp := map[int]float64{}
	one := big.NewRat(1, 1)
	switch m {
	case 1:
		for i := 0; i < n; i++ {
			f, _ := p[i].Float64()
			exp[1<<uint(i)] = f
		}
	case 2:
		for i := 0; i < n; i++ {
			for j := i + 1; j < n; j++ {
				a := new(big.Rat).Mul(p[i], p[j])
				t1 := new(big.Rat).Quo(a, new(big.Rat).Sub(one, p[i]))
				t2 := new(big.Rat).Quo(a, new(big.Rat).Sub(one, p[j]))
				f, _ := t1.Add(t1, t2).Float64()
				exp[1<<uint(i)|1<<uint(j)] = f
			}
		}
	default:
		return fmt.Sprintf("freq ok n=%d c=%s (no reference distribution for m=%d)", trials, strings.Join(parts, ","), m)
	}
	keys := map[int]bool{}
	for k := range exp {
		keys[k] = true
	}
	for k := range counts {
		keys[k] = true
	}
	ks := make([]int, 0, len(keys))
	for k := range keys {
		ks = append(ks, k)
	}
	sort.Ints(ks)
	for _, k := range ks {
		pe, known := exp[k]
		if !known {
			verdict, why = "FAIL", fmt.Sprintf(" set %b is not a valid result", k)
			break
		}
		N := float64(trials)
		tol := 6*math.Sqrt(N*pe*(1-pe)) + 6
		if d := math.Abs(float64(counts[k]) - N*pe); d > tol {
			verdict, why = "FAIL", fmt.Sprintf(" set=%b got=%d want=%.1f tol=%.1f", k, counts[k], N*pe, tol)
			break
		}
	}
	return fmt.Sprintf("freq %s n=%d c=%s%s", verdict, trials, strings.Join(parts, ","), why)
}

// ---------------------------------------------------------------- exact ranks (kind=ex)

// u = mant * 2^exp with integer mant (exact)
func decompose(u float64) (*big.Int, int) {
	fr, e := math.Frexp(u) // u = fr * 2^e, fr in [0.5,1)
	mant := int64(fr * (1 << 53))
	return big.NewInt(mant), e - 53
}

// cmpKey: sign of u_i^(1/(c_i s)) - u_j^(1/(c_j s)) = sign of u_i^(c_j) - u_j^(c_i)   (s > 0, c > 0)
func cmpKey(ui float64, ci int, uj float64, cj int) int {
	mi, ei := decompose(ui)
	mj, ej := decompose(uj)
	a := new(big.Int).Exp(mi, big.NewInt(int64(cj)), nil)
	b := new(big.Int).Exp(mj, big.NewInt(int64(ci)), nil)
	ea, eb := ei*cj, ej*ci
	if ea > eb {
		a.Lsh(a, uint(ea-eb))
	} else {
		b.Lsh(b, uint(eb-ea))
	}
	return a.Cmp(b)
}

// exactRanks returns (ranks, ok); ok = false when two keys are exactly equal or closer than 1e-9 in the
// log domain (float rounding in any reasonable key formula could order them either way) or some u is 0
func exactRanks(us []float64, cs []int) ([]int, bool) {
	n := len(us)
	for i := 0; i < n; i++ {
		if us[i] <= 0 {
			return nil, false
		}
	}
	K := make([]float64, n)
	for i := 0; i < n; i++ {
		K[i] = math.Log(float64(cs[i])) - math.Log(-math.Log(us[i]))
	}
	for i := 0; i < n; i++ {
		for j := i + 1; j < n; j++ {
			if math.Abs(K[i]-K[j]) < 1e-9 {
				return nil, false
			}
		}
	}
	idx := make([]int, n)
	for i := range idx {
		idx[i] = i
	}
	tie := false
	sort.Slice(idx, func(a, b int) bool {
		c := cmpKey(us[idx[a]], cs[idx[a]], us[idx[b]], cs[idx[b]])
		if c == 0 && idx[a] != idx[b] {
			tie = true
		}
		return c < 0
	})
	if tie {
		return nil, false
	}
	ranks := make([]int, n)
	for pos, i := range idx {
		ranks[i] = pos
	}
	return ranks, true
}

type scaleT struct {
	tok string
	val float64
}

func scales() []scaleT {
	d := func(k uint64) scaleT { return scaleT{fmt.Sprintf("d%d", k), math.Float64frombits(k)} } // k * 2^-1074 (k*5e-324)
	return []scaleT{{"1", 1}, {"1e-3", 1e-3}, {"1e-30", 1e-30}, {"1e-300", 1e-300}, d(1), d(3), d(1000), {"1e18", 1e18}, {"1e300", 1e300},
		{"0.1", 0.1}, {"1e-9", 1e-9}, {"1e6", 1e6}}
}

// ---------------------------------------------------------------- prescribed float keys (kind=perm / tie / off)

const (
	lvNaN  = -1
	lvNInf = -2
	lvPInf = -3
)

// implLogW mirrors the log-of-weight sub-expression of sample.go's key
//	ki := math.Log(fr) + float64(exp)*math.Ln2 - math.Log(-math.Log(ui))     (fr, exp := math.Frexp(w))
// It is used ONLY to arrange exact float ties / prescribed float keys (kinds perm, tie, off); the kinds ex and
// stat do not depend on it. If the key expression in sample.go changes, the arranged ties may no longer be
// ties for the implementation and the tie lines show up as L2 mismatches (never as oracle failures).
func implLogW(w float64) float64 {
	fr, e := math.Frexp(w)
	return math.Log(fr) + float64(e)*math.Ln2
}

// weightFor finds w with  implLogW(w) - math.Log(-math.Log(u)) == 600 + level  exactly (float64).
// For T = 600+level in (512,1024) and a = fl(T+L) the subtraction a-L rounds back to T; a weight whose
// logarithm (as the implementation computes it) is exactly a is found by bisection. ok=false if that fails
// (the case is then not emitted).
func weightFor(u float64, level int) (float64, bool) {
	switch level {
	case lvNaN:
		return -1, true
	case lvNInf:
		return 0, true
	case lvPInf:
		return math.Inf(1), u > 0
	}
	if u <= 0 {
		return 0, false
	}
	T := float64(600 + level)
	L := math.Log(-math.Log(u))
	if math.IsInf(L, 0) || math.IsNaN(L) {
		return 0, false
	}
	a := T + L
	if a-L != T || a > 709 {
		return 0, false
	}
	lo, hi := math.Exp(a)*(1-1e-11), math.Exp(a)*(1+1e-11)
	for it := 0; it < 200; it++ {
		mid := lo + (hi-lo)/2
		if mid <= lo || mid >= hi {
			break
		}
		l := implLogW(mid)
		if l == a {
			if implLogW(mid)-L == T {
				return mid, true
			}
			return 0, false
		}
		if l < a {
			lo = mid
		} else {
			hi = mid
		}
	}
	return 0, false
}

// levels -> dense ranks (nan stays nan); -Inf lowest, +Inf highest
func ranksOfLevels(levels []int) string {
	val := func(l int) int {
		switch l {
		case lvNInf:
			return -1 << 30
		case lvPInf:
			return 1 << 30
		}
		return l
	}
	var vs []int
	for _, l := range levels {
		if l != lvNaN {
			vs = append(vs, val(l))
		}
	}
	sort.Ints(vs)
	p := make([]string, len(levels))
	for i, l := range levels {
		if l == lvNaN {
			p[i] = "nan"
			continue
		}
		p[i] = strconv.Itoa(sort.SearchInts(vs, val(l))) // rank = number of strictly smaller keys
	}
	return strings.Join(p, ",")
}

type genState struct {
	c       *hx.Ctx
	seedCtr int64
}

func (g *genState) nextSeed() int64 {
	g.seedCtr++
	return g.seedCtr
}

func (g *genState) emitLevels(m int, levels []int, kind string) {
	c := g.c
	n := len(levels)
	for attempt := 0; attempt < 3; attempt++ {
		seed := g.nextSeed()
		us := drawU(seed, n)
		ws := make([]float64, n)
		ok := true
		for i := range levels {
			var o bool
			ws[i], o = weightFor(us[i], levels[i])
			ok = ok && o
		}
		if !ok {
			c.Count("unarranged_retry")
			continue
		}
		c.Emit("ws %d %d w=%s u=%s r=%s kind=%s", seed, m, bitsList(ws), bitsList(us), ranksOfLevels(levels), kind)
		c.Count("ws_" + kind)
		return
	}
	c.Count("unarranged_dropped")
}

func permutations(n int, f func([]int)) {
	p := make([]int, n)
	for i := range p {
		p[i] = i
	}
	var rec func(k int)
	rec = func(k int) {
		if k == n {
			f(p)
			return
		}
		for i := k; i < n; i++ {
			p[k], p[i] = p[i], p[k]
			rec(k + 1)
			p[k], p[i] = p[i], p[k]
		}
	}
	rec(0)
}

// weak orders on n elements = rank vectors whose value set is {0..k-1}; only those with at least one tie
func weakOrders(n int, f func([]int)) {
	r := make([]int, n)
	var rec func(k int)
	rec = func(k int) {
		if k == n {
			seen := make([]bool, n)
			mx := 0
			for _, v := range r {
				seen[v] = true
				if v > mx {
					mx = v
				}
			}
			for v := 0; v <= mx; v++ {
				if !seen[v] {
					return
				}
			}
			if mx == n-1 {
				return // a permutation: covered by kind=perm
			}
			f(r)
			return
		}
		for v := 0; v < n; v++ {
			r[k] = v
			rec(k + 1)
		}
	}
	rec(0)
}

func gen(c *hx.Ctx) {
	r := c.Rng
	g := &genState{c: c, seedCtr: int64(r.Intn(1 << 30))}

	// 1. exhaustive: every (m, n) with every strict order of the keys (permutations)
	NP := 7
	for n := 1; n <= NP; n++ {
		permutations(n, func(p []int) {
			for m := 1; m <= n; m++ {
				g.emitLevels(m, p, "perm")
			}
		})
	}
	for i := 0; i < c.Budget(2000, 20000); i++ { // sampled beyond the exhaustive bound
		n := NP + 1 + r.Intn(c.Budget(3, 8))
		p := make([]int, n)
		for k := range p {
			p[k] = k
		}
		for k := n - 1; k > 0; k-- {
			j := r.Intn(k + 1)
			p[k], p[j] = p[j], p[k]
		}
		g.emitLevels(r.Range(1, n), p, "perm")
	}
	// 2. exhaustive: every weak order with ties (exact float ties between keys)
	NW := c.Budget(5, 6)
	for n := 2; n <= NW; n++ {
		weakOrders(n, func(rk []int) {
			for m := 1; m <= n; m++ {
				g.emitLevels(m, rk, "tie")
			}
		})
	}
	// 3. larger heaps: random levels (ties likely), n up to 60
	for i := 0; i < c.Budget(5000, 60000); i++ {
		n := r.Range(2, 60)
		if r.Intn(3) == 0 {
			n = r.Range(2, 12)
		}
		nl := r.Range(1, 100)
		lv := make([]int, n)
		kind := "tie"
		switch r.Intn(4) {
		case 0: // ascending keys: every element replaces the minimum
			for k := range lv {
				lv[k] = k * 100 / n
			}
		case 1: // descending: nothing after the first m is accepted
			for k := range lv {
				lv[k] = (n - 1 - k) * 100 / n
			}
		default:
			for k := range lv {
				lv[k] = r.Intn(nl)
			}
		}
		g.emitLevels(r.Range(1, n), lv, kind)
	}
	// 4. weights outside the domain: 0, +Inf, negative -> keys -Inf, +Inf, NaN mixed with finite levels
	for i := 0; i < c.Budget(3000, 30000); i++ {
		n := r.Range(1, 9)
		lv := make([]int, n)
		for k := range lv {
			switch r.Intn(6) {
			case 0:
				lv[k] = lvNaN
			case 1:
				lv[k] = lvNInf
			case 2:
				lv[k] = lvPInf
			default:
				lv[k] = r.Intn(6)
			}
		}
		g.emitLevels(r.Range(1, n), lv, "off")
	}
	// 5. exact ranks, independent of the float formula: w_i = c_i * scale
	scs := scales()
	for i := 0; i < c.Budget(30000, 300000); i++ {
		n := r.Range(1, 10)
		if r.Intn(5) == 0 {
			n = r.Range(10, 40)
		}
		m := r.Range(1, n)
		sc := scs[r.Intn(len(scs))]
		cs := make([]int, n)
		switch r.Intn(3) {
		case 0:
			for k := range cs {
				cs[k] = r.Range(1, 8)
			}
		case 1: // highly skewed
			for k := range cs {
				cs[k] = 1
			}
			cs[r.Intn(n)] = 8
		default:
			for k := range cs {
				cs[k] = r.Range(1, 3)
			}
		}
		seed := g.nextSeed()
		us := drawU(seed, n)
		ranks, ok := exactRanks(us, cs)
		if !ok {
			c.Count("ex_skipped_near_tie")
			continue
		}
		ws := make([]float64, n)
		for k := range ws {
			ws[k] = float64(cs[k]) * sc.val
		}
		c.Emit("ws %d %d w=%s u=%s r=%s c=%s scale=%s kind=ex", seed, m, bitsList(ws), bitsList(us), intsJoin(ranks), intsJoin(cs), sc.tok)
		c.Count("ws_ex")
		c.Count("ws_ex_scale_" + sc.tok)
	}
	// 5b. state carried across calls: a call that PANICS (callback panicking at index 0, 1, k, n-1; nil callback; invalid
	//     arguments) and is recovered by the caller, followed in the same process by valid calls, all in one script line
	validCall := func(n, m int) (string, bool) {
		sc := scs[r.Intn(len(scs))]
		cs := make([]int, n)
		for k := range cs {
			cs[k] = r.Range(1, 8)
		}
		seed := g.nextSeed()
		us := drawU(seed, n)
		ranks, ok := exactRanks(us, cs)
		if !ok {
			return "", false
		}
		ws := make([]float64, n)
		for k := range ws {
			ws[k] = float64(cs[k]) * sc.val
		}
		return fmt.Sprintf("v %d %d w=%s u=%s r=%s c=%s scale=%s kind=ex", seed, m, bitsList(ws), bitsList(us), intsJoin(ranks), intsJoin(cs), sc.tok), true
	}
	for i := 0; i < c.Budget(3000, 40000); i++ {
		var calls []string
		rounds := r.Range(1, 3)
		good := true
		for rd := 0; rd < rounds && good; rd++ {
			n := r.Range(1, 12)
			if r.Intn(4) == 0 {
				n = r.Range(12, 40)
			}
			m := r.Range(1, n)
			switch r.Intn(8) {
			case 0:
				calls = append(calls, fmt.Sprintf("pw %d %d %d 0", g.nextSeed(), m, n))
				c.Count("wseq_panic_at_0")
			case 1:
				if n >= 2 {
					calls = append(calls, fmt.Sprintf("pw %d %d %d 1", g.nextSeed(), m, n))
					c.Count("wseq_panic_at_1")
				}
			case 2, 3:
				calls = append(calls, fmt.Sprintf("pw %d %d %d %d", g.nextSeed(), m, n, r.Intn(n)))
				c.Count("wseq_panic_at_k")
			case 4, 5:
				calls = append(calls, fmt.Sprintf("pw %d %d %d %d", g.nextSeed(), m, n, n-1))
				c.Count("wseq_panic_at_last")
			case 6:
				calls = append(calls, fmt.Sprintf("nil %d %d", m, n))
				c.Count("wseq_nil_callback")
			default:
				pc := [][2]int{{0, 3}, {-1, 2}, {5, 4}, {1, 0}, {2, 1}, {0, 1}}[r.Intn(6)]
				calls = append(calls, fmt.Sprintf("pa %d %d", pc[0], pc[1]))
				c.Count("wseq_invalid_args")
			}
			// followed by valid calls: smaller and larger than the aborted one, sampleNum small and equal to totalNum
			for f := r.Range(1, 3); f > 0; f-- {
				n2 := r.Range(1, 10)
				m2 := r.Range(1, n2)
				switch r.Intn(4) {
				case 0:
					m2 = n2
				case 1:
					m2 = 1
				}
				vc, ok := validCall(n2, m2)
				if !ok {
					good = false
					break
				}
				calls = append(calls, vc)
			}
		}
		if good && len(calls) >= 2 {
			c.Emit("wseq | %s", strings.Join(calls, " ; "))
			c.Count("wseq")
		}
	}
	// 5c. large populations and size boundaries (big.go)
	genBig(c, g)
	// 6. argument validation
	for _, pc := range [][2]int{{0, 1}, {0, 3}, {-1, 1}, {-5, 4}, {2, 1}, {5, 4}, {1, 0}, {0, 0}, {-1, 0}, {1, -3}, {-2, -3}} {
		m, n := pc[0], pc[1]
		seed := g.nextSeed()
		nn := n
		if nn < 0 {
			nn = 0
		}
		us := drawU(seed, nn)
		ws := make([]float64, nn)
		rk := make([]int, nn)
		for k := range ws {
			ws[k] = float64(k + 1)
			rk[k] = k
		}
		ex := ""
		if n < 0 {
			ex = fmt.Sprintf(" n=%d", n)
		}
		// keys of weights 1..n with these u: ranks are irrelevant for the panic cases except (0, n>=1) and (-k, n)
		c.Emit("ws %d %d w=%s u=%s r=%s%s kind=panic", seed, m, bitsList(ws), bitsList(us), intsJoin(rk), ex)
		c.Count("ws_panic")
	}
	// 7. statistical phase (fixed seeds derived from VERIF_SEED)
	trials := c.Budget(50000, 1000000)
	dn := func(k uint64) float64 { return math.Float64frombits(k) }
	vec1 := [][]float64{
		{1, 1}, {1, 2, 3, 4}, {1e-3, 1e-3}, {1e-3, 2e-3, 3e-3}, {1e-30, 2e-30, 3e-30}, {1e18, 1e18}, {1e18, 2e18, 5e18},
		{1e300, 3e300}, {dn(1), dn(1)}, {dn(1), dn(2), dn(3)}, {dn(1000), dn(3000)}, {1, 1000}, {1, 1, 1, 1, 96},
		{1e-3, 1}, {1e-300, 5e-300}, {0.5, 0.25, 0.125, 0.125}, {7, 1, 1, 1, 1, 1, 1, 1},
	}
	for _, v := range vec1 {
		c.Emit("stat %d %d 1 w=%s", g.nextSeed(), trials, bitsList(v))
		c.Count("stat_m1")
	}
	vec2 := [][]float64{
		{1, 2, 3}, {1e-3, 2e-3, 3e-3}, {dn(1), dn(2), dn(3)}, {1e18, 1e18, 2e18}, {1, 1, 10}, {1e-30, 1e-30, 1e-30}, {1, 2, 3, 4},
	}
	for _, v := range vec2 {
		c.Emit("stat %d %d 2 w=%s", g.nextSeed(), trials, bitsList(v))
		c.Count("stat_m2")
	}
}

func main() { hx.Main(gen, exec) }
