// C19 harness: the real aesx cipher on plaintexts that are windows of larger backing arrays.
//
//	enc <opts> <key> <pre> <pt> <spare> <tail>
//	    arr = pre ++ pt ++ spare ++ tail ; input = arr[|pre| : |pre|+|pt| : |pre|+|pt|+|spare|]
//	    c := aesx.NewCipher(key, opts...) ; ct := c.Encrypt(input)
//	    then the same layout with ct in place of pt goes to c.Decrypt
//	    -> ct <hex> in <same|changed> arr <same|hex> rt <hex> darr <same|hex> conc <ok|diff>
//	       (conc: 8 goroutines sharing c encrypt/decrypt 8 different variants of pt concurrently and
//	        must reproduce the answers a separately constructed cipher gave sequentially)
//	    -> panic <iv|blocks|key|other:...>
//	dec <opts> <key> <ct>   -> pt <hex> | panic ...
//	big <opts> <key> <prelen> <ptlen> <ptseed> <spare> <tail>
//	    LARGE inputs (>= 64 KiB size class) without megabytes of hex: pre = prelen bytes 0xA5,
//	    pt[i] = byte(i*167 + seed*13 + (i>>8)*31); same layout, calls and checks as `enc`
//	    -> ct <len> <fnv1a-64 hex> in <same|changed> arr <same|changed@idx:hex..> rt <ok|len hash> darr <same|changed@..> conc <ok|diff>
//
//	seq | new <id> <opts> <key> ; use <id> <pt> ; ...
//	    several cipher objects alive at once in this process (key / IV / mode FAMILIES, older ciphers used again after
//	    newer ones were created): one token per op  n:ok | n:panic-key | u:<ct hex>:<same|rt hex> | u:panic-.. | u:noid
//
//	<opts> = "-" | comma separated  cbc | cfb | iv:<hex>      (hex "-" = empty everywhere else)
package main

import (
	"bytes"
	"crypto/aes"
	"crypto/cipher"
	"encoding/hex"
	"fmt"
	"strings"
	"sync"

	"github.com/lixianmin/got/aesx"
	"verif/harness/hx"
)

func unhex(s string) []byte {
	if s == "-" {
		return []byte{}
	}
	b, err := hex.DecodeString(s)
	if err != nil {
		panic("bad hex in script: " + s)
	}
	return b
}

func hexs(b []byte) string {
	if len(b) == 0 {
		return "-"
	}
	return hex.EncodeToString(b)
}

func parseOpts(s string) []aesx.Option {
	var opts []aesx.Option
	if s == "-" {
		return opts
	}
	for _, o := range strings.Split(s, ",") {
		switch {
		case o == "cbc":
			opts = append(opts, aesx.WithCBC())
		case o == "cfb":
			opts = append(opts, aesx.WithCFB())
		case strings.HasPrefix(o, "iv:"):
			h := o[3:]
			if h == "" {
				opts = append(opts, aesx.WithInitialVector([]byte{}))
			} else {
				opts = append(opts, aesx.WithInitialVector(unhex(h)))
			}
		default:
			panic("bad option in script: " + o)
		}
	}
	return opts
}

func canonPanic(r any) string {
	msg := fmt.Sprint(r)
	switch {
	case strings.Contains(msg, "IV length must equal block size"):
		return "panic iv"
	case strings.Contains(msg, "input not full blocks"):
		return "panic blocks"
	case strings.Contains(msg, "invalid key size"):
		return "panic key"
	}
	return "panic other:" + strings.ReplaceAll(msg, " ", "_")
}

// layout builds the backing array and the 3-index window
func layout(pre, mid, spare, tail []byte) (arr []byte, win []byte) {
	arr = make([]byte, 0, len(pre)+len(mid)+len(spare)+len(tail))
	arr = append(arr, pre...)
	arr = append(arr, mid...)
	arr = append(arr, spare...)
	arr = append(arr, tail...)
	win = arr[len(pre) : len(pre)+len(mid) : len(pre)+len(mid)+len(spare)]
	return
}

func sameOr(before, after []byte) string {
	if bytes.Equal(before, after) {
		return "same"
	}
	return hexs(after)
}

// variant g of the plaintext for the concurrent phase: rotated by g, g extra bytes (so lengths,
// hence paddings, differ between goroutines)
func variant(pt []byte, g int) []byte {
	v := make([]byte, 0, len(pt)+g)
	if len(pt) > 0 {
		k := g % len(pt)
		v = append(v, pt[k:]...)
		v = append(v, pt[:k]...)
	}
	for i := 0; i < g; i++ {
		v = append(v, byte(g*17+i))
	}
	return v
}

func concurrent(optS string, key, pt []byte, shared aesx.ICipher) string {
	const G = 8
	ref := aesx.NewCipher(key, parseOpts(optS)...)
	var wantCt, wantRt [G][]byte
	for g := 0; g < G; g++ {
		wantCt[g] = ref.Encrypt(variant(pt, g))
		wantRt[g] = ref.Decrypt(append([]byte{}, wantCt[g]...))
	}
	var wg sync.WaitGroup
	var bad [G]bool
	start := make(chan struct{})
	for g := 0; g < G; g++ {
		wg.Add(1)
		go func(g int) {
			defer wg.Done()
			defer func() {
				if r := recover(); r != nil {
					bad[g] = true
				}
			}()
			<-start
			for rep := 0; rep < 3; rep++ {
				in := variant(pt, g)
				ct := shared.Encrypt(in)
				rt := shared.Decrypt(append([]byte{}, ct...))
				if !bytes.Equal(ct, wantCt[g]) || !bytes.Equal(rt, wantRt[g]) || !bytes.Equal(in, variant(pt, g)) {
					bad[g] = true
				}
			}
		}(g)
	}
	close(start)
	wg.Wait()
	for g := 0; g < G; g++ {
		if bad[g] {
			return "diff"
		}
	}
	return "ok"
}

func genPt(n, seed int) []byte {
	pt := make([]byte, n)
	for i := range pt {
		pt[i] = byte(i*167 + seed*13 + (i>>8)*31)
	}
	return pt
}

func fnv64(b []byte) string {
	h := uint64(0xcbf29ce484222325)
	for _, x := range b {
		h = (h ^ uint64(x)) * 0x100000001b3
	}
	return fmt.Sprintf("%016x", h)
}

func changedOr(before, after []byte) string {
	n := len(before)
	if len(after) < n {
		n = len(after)
	}
	for i := 0; i < n; i++ {
		if before[i] != after[i] {
			e := i + 32
			if e > len(after) {
				e = len(after)
			}
			return fmt.Sprintf("changed@%d:%s", i, hexs(after[i:e]))
		}
	}
	if len(before) != len(after) {
		return fmt.Sprintf("changed@%d:-", n)
	}
	return "same"
}

func execSeq(body string) string {
	ciphers := map[string]aesx.ICipher{}
	var outs []string
	for _, op := range strings.Split(body, " ; ") {
		w := strings.Fields(op)
		res := func() (res string) {
			defer func() {
				if r := recover(); r != nil {
					res = strings.ReplaceAll(canonPanic(r), " ", "-")
				}
			}()
			switch {
			case len(w) == 4 && w[0] == "new":
				delete(ciphers, w[1])
				res = "n:panic-key"
				func() {
					defer func() { recover() }()
					ciphers[w[1]] = aesx.NewCipher(unhex(w[3]), parseOpts(w[2])...)
					res = "n:ok"
				}()
				return res
			case len(w) == 3 && w[0] == "use":
				ci, ok := ciphers[w[1]]
				if !ok {
					return "u:noid"
				}
				pt := unhex(w[2])
				res = "u:panic-iv"
				ct := ci.Encrypt(append([]byte{}, pt...))
				rt := ci.Decrypt(append([]byte{}, ct...))
				rtS := "same"
				if !bytes.Equal(rt, pt) {
					rtS = hexs(rt)
				}
				return "u:" + hexs(ct) + ":" + rtS
			}
			return "bad-op"
		}()
		if strings.HasPrefix(res, "panic-") {
			res = "u:" + res
		}
		outs = append(outs, res)
	}
	return strings.Join(outs, " ")
}

func exec(c *hx.Ctx, line string) (out string) {
	if strings.HasPrefix(line, "seq | ") {
		return execSeq(line[6:])
	}
	defer func() {
		if r := recover(); r != nil {
			out = canonPanic(r)
		}
	}()
	w := strings.Fields(line)
	switch {
	case w[0] == "enc" && len(w) == 7:
		key, pre, pt, spare, tail := unhex(w[2]), unhex(w[3]), unhex(w[4]), unhex(w[5]), unhex(w[6])
		ci := aesx.NewCipher(key, parseOpts(w[1])...)
		arr, in := layout(pre, pt, spare, tail)
		before := append([]byte{}, arr...)
		ct := ci.Encrypt(in)
		inS := "same"
		if !bytes.Equal(in, pt) || len(in) != len(pt) {
			inS = "changed"
		}
		arrS := sameOr(before, arr[:cap(arr)])
		ctCopy := append([]byte{}, ct...)
		darr, din := layout(pre, ct, spare, tail)
		dbefore := append([]byte{}, darr...)
		rt := ci.Decrypt(din)
		rtS := hexs(rt)
		darrS := sameOr(dbefore, darr[:cap(darr)])
		conc := concurrent(w[1], key, pt, ci)
		return fmt.Sprintf("ct %s in %s arr %s rt %s darr %s conc %s", hexs(ctCopy), inS, arrS, rtS, darrS, conc)
	case w[0] == "big" && len(w) == 8:
		key, spare, tail := unhex(w[2]), unhex(w[6]), unhex(w[7])
		var prelen, ptlen, seed int
		fmt.Sscan(w[3], &prelen)
		fmt.Sscan(w[4], &ptlen)
		fmt.Sscan(w[5], &seed)
		pre := bytes.Repeat([]byte{0xA5}, prelen)
		pt := genPt(ptlen, seed)
		ci := aesx.NewCipher(key, parseOpts(w[1])...)
		arr, in := layout(pre, pt, spare, tail)
		before := append([]byte{}, arr...)
		ct := ci.Encrypt(in)
		inS := "same"
		if !bytes.Equal(in, pt) || len(in) != len(pt) {
			inS = "changed"
		}
		arrS := changedOr(before, arr[:cap(arr)])
		ctCopy := append([]byte{}, ct...)
		darr, din := layout(pre, ct, spare, tail)
		dbefore := append([]byte{}, darr...)
		rt := ci.Decrypt(din)
		rtS := "ok"
		if !bytes.Equal(rt, pt) {
			rtS = fmt.Sprintf("%d %s", len(rt), fnv64(rt))
		}
		darrS := changedOr(dbefore, darr[:cap(darr)])
		conc := concurrent(w[1], key, pt, ci)
		return fmt.Sprintf("ct %d %s in %s arr %s rt %s darr %s conc %s", len(ctCopy), fnv64(ctCopy), inS, arrS, rtS, darrS, conc)
	case w[0] == "dec" && len(w) == 4:
		key, ct := unhex(w[2]), unhex(w[3])
		ci := aesx.NewCipher(key, parseOpts(w[1])...)
		return "pt " + hexs(ci.Decrypt(ct))
	}
	return "bad-op"
}

// ---------------------------------------------------------------- generation

var keySizes = []int{16, 24, 32}

// tails that look like padding (or nearly)
func paddingLookalike(c *hx.Ctx, n int) []byte {
	p := c.Rng.Bytes(n)
	if n == 0 {
		return p
	}
	switch c.Rng.Intn(8) {
	case 0:
		p[n-1] = 1
	case 1:
		k := c.Rng.Range(1, 16)
		for i := 0; i < k && i < n; i++ {
			p[n-1-i] = byte(k)
		}
	case 2:
		p[n-1] = 16
	case 3:
		p[n-1] = 0
	case 4:
		p[n-1] = byte(n) // "padding" equal to the whole length
	case 5:
		p[n-1] = byte(n + 1)
	case 6:
		p[n-1] = 0xff
	case 7:
		for i := range p {
			p[i] = 16
		}
	}
	return p
}

func spareFor(c *hx.Ctx, kind int, n int) []byte {
	pad := 16 - n%16
	var k int
	switch kind {
	case 0:
		k = 0
	case 1:
		k = pad // exactly room for the padding
	case 2:
		k = pad - 1 // one byte short
	case 3:
		k = pad + c.Rng.Range(1, 40)
	default:
		k = c.Rng.Range(0, 48)
	}
	s := make([]byte, k)
	switch c.Rng.Intn(3) {
	case 0:
		for i := range s {
			s[i] = 0xEE
		}
	case 1:
		for i := range s {
			s[i] = byte(pad) // sentinel equal to the padding byte: an overwrite would be invisible, kept on purpose as a control
		}
	default:
		copy(s, c.Rng.Bytes(k))
	}
	return s
}

var spareNames = []string{"spare0", "spare=pad", "spare=pad-1", "spare>pad", "spare_random"}

func emitEnc(c *hx.Ctx, opts string, key, pre, pt, spare, tail []byte) {
	c.Emit("enc %s %s %s %s %s %s", opts, hexs(key), hexs(pre), hexs(pt), hexs(spare), hexs(tail))
}

func rawCBC(key, iv, pt []byte) []byte {
	b, _ := aes.NewCipher(key)
	out := make([]byte, len(pt))
	cipher.NewCBCEncrypter(b, iv).CryptBlocks(out, pt)
	return out
}

func gen(c *hx.Ctx) {
	r := c.Rng
	maxLen := c.Budget(80, 200)
	variants := c.Budget(2, 6)
	modes := []string{"-", "cbc", "cfb"}
	// 1. systematic: mode x key size x every length x spare-capacity class
	for _, mode := range modes {
		for _, ks := range keySizes {
			for n := 0; n <= maxLen; n++ {
				for kind := 0; kind < 5; kind++ {
					for v := 0; v < variants; v++ {
						key := r.Bytes(ks)
						opts := mode
						if r.Bool() {
							iv := "iv:" + hex.EncodeToString(r.Bytes(16))
							if opts == "-" {
								opts = iv
							} else if r.Bool() {
								opts = opts + "," + iv
							} else {
								opts = iv + "," + opts
							}
						}
						var pt []byte
						if r.Intn(3) == 0 {
							pt = paddingLookalike(c, n)
							c.Count("pt_padding_lookalike")
						} else {
							pt = r.Bytes(n)
						}
						var pre, tail []byte
						if r.Intn(3) == 0 {
							pre = r.Bytes(r.Range(1, 20))
						}
						if r.Intn(3) == 0 {
							tail = r.Bytes(r.Range(1, 20))
						}
						emitEnc(c, opts, key, pre, pt, spareFor(c, kind, n), tail)
						c.Count("enc_" + mode)
						c.Count(fmt.Sprintf("key%d", ks))
						c.Count(spareNames[kind])
						c.Count(fmt.Sprintf("residue%02d", n%16))
					}
				}
			}
		}
	}
	// 2. option handling: orders, repeated options, empty IV (ignored), wrong IV / key sizes (panic)
	optForms := []string{"cfb,cbc", "cbc,cfb", "cfb,cfb", "iv:", "cfb,iv:", "iv:,cfb", "cbc,iv:"}
	for i := 0; i < c.Budget(1000, 10000); i++ {
		ks := keySizes[r.Intn(3)]
		key := r.Bytes(ks)
		var opts string
		switch r.Intn(6) {
		case 0, 1:
			opts = optForms[r.Intn(len(optForms))]
			c.Count("opts_order_or_empty_iv")
		case 2:
			opts = fmt.Sprintf("iv:%s,iv:%s", hex.EncodeToString(r.Bytes(16)), hex.EncodeToString(r.Bytes(16)))
			if r.Bool() {
				opts += ",cfb"
			}
			c.Count("opts_two_ivs")
		case 3:
			opts = fmt.Sprintf("iv:%s,iv:", hex.EncodeToString(r.Bytes(16)))
			if r.Bool() {
				opts = "cfb," + opts
			}
			c.Count("opts_iv_then_empty_iv")
		case 4:
			bad := []int{1, 8, 15, 17, 32}[r.Intn(5)]
			opts = "iv:" + hex.EncodeToString(r.Bytes(bad))
			if r.Bool() {
				opts += ",cfb"
			}
			c.Count("opts_bad_iv_len")
		default:
			key = r.Bytes([]int{0, 1, 15, 17, 31, 33, 48}[r.Intn(7)])
			opts = modes[r.Intn(3)]
			c.Count("bad_key_len")
		}
		n := r.Range(0, 48)
		emitEnc(c, opts, key, nil, r.Bytes(n), spareFor(c, 4, n), nil)
	}
	// 3. random, longer inputs
	for i := 0; i < c.Budget(2000, 40000); i++ {
		ks := keySizes[r.Intn(3)]
		n := r.Range(0, c.Budget(300, 2000))
		if r.Intn(4) == 0 {
			n = 16 * r.Range(0, 20)
		}
		opts := modes[r.Intn(3)]
		if r.Bool() {
			iv := "iv:" + hex.EncodeToString(r.Bytes(16))
			if opts == "-" {
				opts = iv
			} else {
				opts += "," + iv
			}
		}
		pt := r.Bytes(n)
		if r.Intn(3) == 0 {
			pt = paddingLookalike(c, n)
		}
		emitEnc(c, opts, r.Bytes(ks), r.Bytes(r.Intn(8)), pt, spareFor(c, r.Intn(5), n), r.Bytes(r.Intn(8)))
		c.Count("enc_random_long")
	}
	// 6. FAMILIES of related keys / IVs / modes inside this one process: variants of a base key that differ only in the
	//    last byte, the last 8 bytes, bytes 16.., the first byte, or only in length (a 16-byte key that is the prefix of a
	//    24/32-byte key), in both orders; several ciphers alive at once, the older one used again after the newer was made
	flip := func(b []byte, from, to int) []byte {
		v := append([]byte{}, b...)
		for i := from; i < to && i < len(v); i++ {
			v[i] ^= byte(1 + r.Intn(255))
		}
		return v
	}
	keyVariant := func(base []byte, kind int) []byte {
		L := len(base)
		switch kind {
		case 0:
			return flip(base, L-1, L) // last byte
		case 1:
			return flip(base, L-8, L) // last 8 bytes
		case 2:
			if L > 16 {
				return flip(base, 16, L) // everything behind the first block
			}
			return flip(base, 8, L)
		case 3:
			return flip(base, 0, 1) // first byte
		case 4: // same bytes, other length
			other := []int{16, 24, 32}[r.Intn(3)]
			for other == L {
				other = []int{16, 24, 32}[r.Intn(3)]
			}
			if other < L {
				return append([]byte{}, base[:other]...)
			}
			return append(append([]byte{}, base...), r.Bytes(other-L)...)
		case 5:
			if L > 16 {
				return flip(base, 16, 17) // first byte behind the first block
			}
			return flip(base, 15, 16)
		}
		return append([]byte{}, base...) // identical key (a cache hit must be harmless)
	}
	ivVariant := func(base []byte, kind int) string {
		switch kind {
		case 0:
			return "iv:" + hex.EncodeToString(flip(base, 15, 16))
		case 1:
			return "iv:" + hex.EncodeToString(flip(base, 0, 1))
		case 2:
			return "" // default IV
		}
		return "iv:" + hex.EncodeToString(base)
	}
	join := func(parts ...string) string {
		var p []string
		for _, x := range parts {
			if x != "" && x != "-" {
				p = append(p, x)
			}
		}
		if len(p) == 0 {
			return "-"
		}
		return strings.Join(p, ",")
	}
	famRounds := c.Budget(6, 60)
	for round := 0; round < famRounds; round++ {
		for _, ks := range keySizes {
			for kind := 0; kind <= 6; kind++ {
				for order := 0; order < 2; order++ {
					base := r.Bytes(ks) // a fresh family for every order: nothing about it is known to the process yet
					other := keyVariant(base, kind)
					iv := r.Bytes(16)
					a := [2]string{join(modes[r.Intn(3)], ivVariant(iv, 3)), hexs(base)}
					b := [2]string{join(modes[r.Intn(3)], ivVariant(iv, r.Intn(4))), hexs(other)}
					if order == 1 {
						a, b = b, a
					}
					pt1, pt2 := r.Bytes(r.Range(0, 40)), r.Bytes(r.Range(17, 48))
					// (i) consecutive independent lines
					emitEnc(c, a[0], unhex(a[1]), nil, pt1, spareFor(c, r.Intn(5), len(pt1)), nil)
					emitEnc(c, b[0], unhex(b[1]), nil, pt1, spareFor(c, r.Intn(5), len(pt1)), nil)
					// (ii) both alive at once, older used again after the newer one was created, a third one on top
					base2 := r.Bytes(ks)
					other2 := keyVariant(base2, kind)
					if order == 1 {
						base2, other2 = other2, base2
					}
					third := keyVariant(base2, r.Intn(7))
					c.Emit("seq | new a %s %s ; use a %s ; new b %s %s ; use b %s ; use a %s ; new c %s %s ; use a %s ; use c %s ; use b %s ; new a %s %s ; use a %s",
						a[0], hexs(base2), hexs(pt1), b[0], hexs(other2), hexs(pt1), hexs(pt2),
						join(modes[r.Intn(3)], ivVariant(iv, r.Intn(4))), hexs(third), hexs(pt1), hexs(pt2), hexs(pt2),
						b[0], hexs(other2), hexs(pt1))
					c.Count(fmt.Sprintf("family_key_kind%d", kind))
				}
			}
		}
		// IV and mode families on ONE key: same key, IVs differing in one byte / default, both modes, interleaved
		key := r.Bytes(keySizes[r.Intn(3)])
		iv := r.Bytes(16)
		pt := r.Bytes(r.Range(1, 48))
		c.Emit("seq | new a %s %s ; new b %s %s ; new c %s %s ; new d %s %s ; use a %s ; use b %s ; use c %s ; use d %s ; use a %s ; use c %s",
			join("cbc", ivVariant(iv, 3)), hexs(key), join("cbc", ivVariant(iv, 0)), hexs(key), join("cfb", ivVariant(iv, 3)), hexs(key),
			join(modes[r.Intn(3)], ivVariant(iv, r.Intn(3))), hexs(key), hexs(pt), hexs(pt), hexs(pt), hexs(pt), hexs(pt), hexs(pt))
		c.Count("family_iv_mode")
	}
	// 5. LARGE inputs (size classes around and above 64 KiB, where a bulk / zero-copy path would start), each a prefix of a
	//    larger backing array with spare capacity {0, 1, pad-1, pad, 16, 64} filled with a sentinel
	bigLens := []int{65535, 65536, 65537, 65536 + 15, 65536 + 16, 100000}
	if c.Thorough() {
		bigLens = append(bigLens, 65536+31, 131072, 131073, 200000, 65536+r.Range(1, 200000), 65536+16*r.Range(1, 4000))
	}
	emitBig := func(mode string, n, kind int) {
		pad := 16 - n%16
		k := []int{0, 1, pad - 1, pad, 16, 64}[kind]
		spare := bytes.Repeat([]byte{0xEE}, k)
		if r.Intn(4) == 0 {
			spare = r.Bytes(k)
		}
		opts := mode
		if r.Bool() {
			iv := "iv:" + hex.EncodeToString(r.Bytes(16))
			if opts == "-" {
				opts = iv
			} else {
				opts += "," + iv
			}
		}
		var tail []byte
		if r.Bool() {
			tail = r.Bytes(r.Range(1, 8))
		}
		c.Emit("big %s %s %d %d %d %s %s", opts, hexs(r.Bytes(keySizes[r.Intn(3)])), []int{0, 0, 5, 33}[r.Intn(4)], n, r.Intn(1000), hexs(spare), hexs(tail))
		c.Count("big_" + mode)
		c.Count([]string{"big_spare0", "big_spare1", "big_spare=pad-1", "big_spare=pad", "big_spare16", "big_spare64"}[kind])
	}
	for i, n := range bigLens {
		for kind := 0; kind < 6; kind++ {
			if c.Thorough() || n >= 65536 || kind == 3 || kind == 5 { // quick: below the 64 KiB class only two spare classes
				emitBig([]string{"-", "cbc"}[(i+kind)%2], n, kind)
			}
			if c.Thorough() || kind == 4 {
				emitBig("cfb", n, kind)
			}
		}
	}
	if c.Thorough() {
		for kind := 0; kind < 6; kind++ {
			emitBig("cbc", 1<<20, kind)
			emitBig("cfb", 1<<20, kind)
		}
		emitBig("-", 1<<20+1, 3)
		emitBig("cbc", 3<<20, 5)
	} else {
		emitBig("cbc", 1<<20, 3)
	}
	// 4. Decrypt of arbitrary / crafted ciphertexts (model fidelity of pkcs5Trimming off the round-trip path)
	for i := 0; i < c.Budget(3000, 40000); i++ {
		ks := keySizes[r.Intn(3)]
		key := r.Bytes(ks)
		iv := r.Bytes(16)
		opts := "iv:" + hex.EncodeToString(iv)
		var ct []byte
		switch r.Intn(6) {
		case 0: // garbage, full blocks
			ct = r.Bytes(16 * r.Range(0, 5))
			c.Count("dec_garbage_blocks")
		case 1: // not a multiple of the block size -> panic in CBC
			ct = r.Bytes(16*r.Range(0, 4) + r.Range(1, 15))
			c.Count("dec_partial_block")
		case 2: // cfb, any length
			opts += ",cfb"
			ct = r.Bytes(r.Range(0, 70))
			c.Count("dec_cfb")
		default: // raw CBC of an unpadded plaintext whose last byte is chosen: 0, == size, size+1, > size, 1..16, big
			nb := r.Range(1, 4)
			p := r.Bytes(16 * nb)
			size := 16 * nb
			last := []int{0, size, size + 1, size - 1, 1, 16, 17, 255, r.Intn(256)}[r.Intn(9)]
			p[size-1] = byte(last)
			ct = rawCBC(key, iv, p)
			c.Count("dec_crafted_last_byte")
		}
		c.Emit("dec %s %s %s", opts, hexs(key), hexs(ct))
	}
}

func main() { hx.Main(gen, exec) }
