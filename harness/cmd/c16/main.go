// C16 harness (build tag: faketime — whole-process virtual time): loom.WaitClose.
//
//	wc | <prog> / <prog> ...      one program per goroutine on one zero-value WaitClose; a program is a list of calls
//	                              `<at>:<op>`, issued at virtual instant max(at, return of the previous call) (ns from the
//	                              scenario start).  ops: C  W<timeout ns>  I  Xn (Close(nil))  Xs<d> / Xe<d> / Xp<d> (Close with a
//	                              callback that sleeps d ns and then returns nil / returns an error / panics); Xg<d>: the
//	                              callback ends its goroutine with runtime.Goexit (oracle-only class, value `exited`)
//	stress <goroutines> <rounds> <seed>    real goroutines hammering Close/C/WaitUtil/IsClosed on fresh objects (L3)
//
// observation: r<g>.<i>@<call instant>-<return instant>=<value>  (C: global | own<k> | nil ; W, I: 0|1 ; X: nil|err),
// cb<g>@<start>-<end> per executed callback, probe=ok|open (every channel returned so far, probed right after each Close
// return and at the end if a Close has returned), isclosed=<IsClosed() at the end>, chans=<distinct own channels seen>.
package main

import (
	"errors"
	"fmt"
	"os"
	"runtime"
	"runtime/debug"
	"sort"
	"strconv"
	"strings"
	"sync"
	"sync/atomic"
	"time"

	"github.com/lixianmin/got/loom"
	"verif/harness/hx"
)

var globalCh chan struct{}
var realStdout = os.Stdout // keep fd 1 referenced: a finalised os.Stdout would free fd 1 for the result files (faketime frames fd 1/2)

func init() {
	var z loom.WaitClose
	_ = z.Close(nil)
	globalCh = z.C() // the shared pre-closed channel
	if f, err := os.OpenFile(os.DevNull, os.O_WRONLY, 0); err == nil {
		os.Stdout = f // Close prints recovered panics
	}
	// Under faketime a background GC cycle that starts while every goroutine sleeps can live-lock the fake clock
	// (observed: bgsweep runnable forever, all user goroutines in time.Sleep). Collect only between scenarios.
	debug.SetGCPercent(-1)
}

var sinceGC int

func maybeGC() {
	sinceGC++
	if sinceGC >= 400 {
		sinceGC = 0
		runtime.GC()
	}
}

type call struct {
	at  int64
	op  byte // C W I X
	arg int64
	cb  byte // n s e p
}

func parseProg(p string) ([]call, bool) {
	var out []call
	for _, w := range strings.Fields(p) {
		k := strings.IndexByte(w, ':')
		if k < 0 || k+1 >= len(w) {
			return nil, false
		}
		at, err := strconv.ParseInt(w[:k], 10, 64)
		if err != nil {
			return nil, false
		}
		o := w[k+1:]
		c := call{at: at, op: o[0]}
		switch o[0] {
		case 'C', 'I':
		case 'W':
			c.arg, err = strconv.ParseInt(o[1:], 10, 64)
		case 'X':
			if len(o) < 2 {
				return nil, false
			}
			c.cb = o[1]
			if c.cb != 'n' {
				c.arg, err = strconv.ParseInt(o[2:], 10, 64)
			}
		default:
			return nil, false
		}
		if err != nil {
			return nil, false
		}
		out = append(out, c)
	}
	return out, true
}

func isClosedChan(ch chan struct{}) bool {
	select {
	case <-ch:
		return true
	default:
		return false
	}
}

var errCb = errors.New("callback error")

func runScenario(progs [][]call) string {
	var wc loom.WaitClose
	var mu sync.Mutex // protects the records below (harness bookkeeping only)
	var chans []chan struct{}
	names := map[chan struct{}]string{}
	nown := 0
	var cbs []string
	probeOpen := false
	closeReturned := false
	rets := make([][]string, len(progs))

	name := func(ch chan struct{}) string {
		if ch == nil {
			return "nil"
		}
		if ch == globalCh {
			return "global"
		}
		mu.Lock()
		defer mu.Unlock()
		if n, ok := names[ch]; ok {
			return n
		}
		nown++
		names[ch] = fmt.Sprintf("own%d", nown)
		return names[ch]
	}
	probe := func() {
		mu.Lock()
		defer mu.Unlock()
		for _, ch := range chans {
			if !isClosedChan(ch) {
				probeOpen = true
			}
		}
	}
	start := time.Now()
	var wg sync.WaitGroup
	for g := range progs {
		g := g
		wg.Add(1)
		go func() {
			defer wg.Done()
			for i, c := range progs[g] {
				if d := time.Duration(c.at) - time.Since(start); d > 0 {
					time.Sleep(d)
				}
				callAt := int64(time.Since(start))
				var val string
				switch c.op {
				case 'C':
					ch := wc.C()
					val = name(ch)
					if ch != nil {
						mu.Lock()
						chans = append(chans, ch)
						mu.Unlock()
					}
				case 'W':
					if wc.WaitUtil(time.Duration(c.arg)) {
						val = "1"
					} else {
						val = "0"
					}
				case 'I':
					if wc.IsClosed() {
						val = "1"
					} else {
						val = "0"
					}
				case 'X':
					var cb func() error
					if c.cb != 'n' {
						kind, d := c.cb, c.arg
						cb = func() error {
							s := int64(time.Since(start))
							if d > 0 {
								time.Sleep(time.Duration(d))
							}
							e := int64(time.Since(start))
							mu.Lock()
							cbs = append(cbs, fmt.Sprintf("cb%d@%d-%d", g, s, e))
							mu.Unlock()
							switch kind {
							case 'e':
								return errCb
							case 'p':
								panic("callback panic")
							case 'g':
								runtime.Goexit() // e.g. t.FailNow() inside the callback: the goroutine ends, Close never returns
							}
							return nil
						}
					}
					if c.cb == 'g' {
						// the Close call runs in its own goroutine, which ends inside the callback; wait for its end only
						ended := make(chan struct{})
						go func() {
							defer close(ended)
							_ = wc.Close(cb)
						}()
						<-ended
						val = "exited"
					} else if err := wc.Close(cb); err != nil {
						val = "err"
					} else {
						val = "nil"
					}
					mu.Lock()
					closeReturned = true
					mu.Unlock()
					probe()
				}
				ret := int64(time.Since(start))
				rets[g] = append(rets[g], fmt.Sprintf("r%d.%d@%d-%d=%s", g, i, callAt, ret, val))
			}
		}()
	}
	wg.Wait()
	if closeReturned {
		probe()
	}
	var out []string
	for g := range rets {
		out = append(out, rets[g]...)
	}
	sort.Strings(cbs)
	out = append(out, cbs...)
	if probeOpen {
		out = append(out, "probe=open")
	} else {
		out = append(out, "probe=ok")
	}
	if wc.IsClosed() {
		out = append(out, "isclosed=1")
	} else {
		out = append(out, "isclosed=0")
	}
	out = append(out, fmt.Sprintf("chans=%d", nown))
	return strings.Join(out, " ")
}

// stress: many rounds; in each round G goroutines start together on a fresh object and run short random call
// sequences; the invariants of C16 are evaluated inside the goroutines with atomics.
func stress(G, rounds int, seed uint64) string {
	var ops, maxcb, early, open, nilc, nonmono, wubad, closedRounds int64
	rng := hx.NewRng(seed)
	for r := 0; r < rounds; r++ {
		var wc loom.WaitClose
		var started, running, closeRet int32
		var chmu sync.Mutex
		var chans []chan struct{}
		gate := make(chan struct{})
		var wg sync.WaitGroup
		seeds := make([]uint64, G)
		for g := range seeds {
			seeds[g] = rng.U64()
		}
		checkChans := func() {
			chmu.Lock()
			for _, ch := range chans {
				if !isClosedChan(ch) {
					atomic.AddInt64(&open, 1)
				}
			}
			chmu.Unlock()
		}
		for g := 0; g < G; g++ {
			wg.Add(1)
			lr := hx.NewRng(seeds[g])
			go func() {
				defer wg.Done()
				<-gate
				for k := lr.Range(1, 4); k > 0; k-- {
					atomic.AddInt64(&ops, 1)
					switch lr.Intn(5) {
					case 0:
						ch := wc.C()
						if ch == nil {
							atomic.AddInt64(&nilc, 1)
						} else {
							chmu.Lock()
							chans = append(chans, ch)
							chmu.Unlock()
						}
					case 1:
						after := atomic.LoadInt32(&closeRet) > 0
						t := time.Duration(lr.Pick([]int{1, 2, 50, 1000}))
						ok := wc.WaitUtil(t)
						if after && !ok {
							atomic.AddInt64(&wubad, 1) // closed before the call, positive timeout
						}
						if ok && !isClosedChan(wc.C()) {
							atomic.AddInt64(&wubad, 1)
						}
					case 2:
						after := atomic.LoadInt32(&closeRet) > 0
						if !wc.IsClosed() && after {
							atomic.AddInt64(&nonmono, 1)
						}
					default:
						var cb func() error
						kind := lr.Intn(4)
						d := time.Duration(lr.Pick([]int{0, 0, 1, 100}))
						if kind != 0 {
							cb = func() error {
								atomic.AddInt32(&started, 1)
								atomic.AddInt32(&running, 1)
								defer atomic.AddInt32(&running, -1)
								if d > 0 {
									time.Sleep(d)
								} else {
									for i := 0; i < 200; i++ {
										_ = atomic.LoadInt32(&running) // stay in the callback for a little while
									}
								}
								if kind == 2 {
									return errCb
								}
								if kind == 3 {
									panic("callback panic")
								}
								return nil
							}
						}
						_ = wc.Close(cb)
						if atomic.LoadInt32(&running) != 0 {
							atomic.AddInt64(&early, 1) // a Close returned while the callback was still running
						}
						atomic.AddInt32(&closeRet, 1)
						if !wc.IsClosed() {
							atomic.AddInt64(&nonmono, 1)
						}
						checkChans()
					}
				}
			}()
		}
		close(gate)
		wg.Wait()
		if int64(started) > atomic.LoadInt64(&maxcb) {
			maxcb = int64(started)
		}
		if closeRet > 0 {
			closedRounds++
			checkChans()
			if !wc.IsClosed() {
				nonmono++
			}
		}
	}
	return fmt.Sprintf("ops=%d closed=%d cb=%d early=%d open=%d nil=%d nonmono=%d wubad=%d", ops, closedRounds, maxcb, early, open, nilc, nonmono, wubad)
}

func exec(c *hx.Ctx, line string) string {
	maybeGC()
	w := strings.Fields(line)
	if len(w) == 0 {
		return ""
	}
	if w[0] == "stress" && len(w) == 4 {
		g, _ := strconv.Atoi(w[1])
		r, _ := strconv.Atoi(w[2])
		s, _ := strconv.ParseUint(w[3], 10, 64)
		return stress(g, r, s)
	}
	parts := strings.Split(line, " | ")
	if len(parts) != 2 || strings.TrimSpace(parts[0]) != "wc" {
		return "bad-op"
	}
	var progs [][]call
	for _, p := range strings.Split(parts[1], " / ") {
		pr, ok := parseProg(p)
		if !ok {
			return "bad-op"
		}
		progs = append(progs, pr)
	}
	return runScenario(progs)
}

func main() { hx.Main(gen, exec) }
