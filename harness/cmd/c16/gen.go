package main

import (
	"fmt"
	"strings"

	"verif/harness/hx"
)

func closeOp(c *hx.Ctx) string {
	switch c.Rng.Intn(6) {
	case 0:
		return "Xn"
	case 1:
		return fmt.Sprintf("Xe%d", c.Rng.Pick([]int{0, 1, 5, 10}))
	case 2:
		return fmt.Sprintf("Xp%d", c.Rng.Pick([]int{0, 1, 5, 10}))
	default:
		return fmt.Sprintf("Xs%d", c.Rng.Pick([]int{0, 1, 5, 10, 20}))
	}
}

func gen(c *hx.Ctx) {
	// F1: two Close calls, the second one issued before / during / after the first one's slow callback
	for _, k1 := range []string{"Xs10", "Xe10", "Xp10", "Xn", "Xs0"} {
		for _, k2 := range []string{"Xs3", "Xn", "Xe0", "Xp2"} {
			for b := 0; b <= 12; b++ {
				for _, pre := range []string{"", "0:C ", "0:I "} {
					c.Emit("wc | %s1:%s 30:I 31:C / %d:%s %d:I / 40:C 41:W5", pre, k1, b, k2, b+1)
					c.Count("two_closes")
				}
			}
		}
	}
	// F2: WaitUtil deadline just before / at / after the close; object new or initialised; close with slow callback
	for _, T := range []int{-1, 0, 1, 4, 5, 6, 9, 10, 11, 50} {
		for _, cl := range []string{"Xn", "Xs5", "Xp5", "Xe0"} {
			for _, pre := range []string{"", "0:C "} {
				for wat := 0; wat <= 7; wat++ {
					c.Emit("wc | %s%d:W%d / 5:%s / 5:I 6:I 10:I 11:I", pre, wat, T, cl)
					c.Count("waitutil_boundary")
				}
			}
		}
	}
	// F3: closed before first use (shared pre-closed channel); C racing with the first Close
	for _, cl := range []string{"Xn", "Xs4", "Xp4", "Xe4"} {
		for a := 0; a <= 6; a++ {
			c.Emit("wc | 1:%s 8:C / %d:C %d:W3 / %d:I %d:C", cl, a, a+1, a, a+3)
			c.Count("close_before_first_use")
			c.Emit("wc | 1:%s / %d:W0 %d:W-5 / %d:C / %d:C", cl, a, a+2, a, a)
			c.Count("close_before_first_use")
		}
	}
	// F4: random scripts, 2-4 goroutines, instants from a small set (many simultaneous calls)
	N := c.Budget(4000, 120000)
	for i := 0; i < N; i++ {
		n := c.Rng.Range(2, 4)
		var ps []string
		for g := 0; g < n; g++ {
			var calls []string
			at := 0
			for k := c.Rng.Range(1, 3); k > 0; k-- {
				at += c.Rng.Pick([]int{0, 0, 1, 1, 2, 3, 5, 10})
				var op string
				switch c.Rng.Intn(7) {
				case 0, 1:
					op = "C"
				case 2:
					op = "I"
				case 3, 4:
					op = fmt.Sprintf("W%d", c.Rng.Pick([]int{-1, 0, 1, 2, 3, 5, 8, 10, 11, 30}))
				default:
					op = closeOp(c)
				}
				calls = append(calls, fmt.Sprintf("%d:%s", at, op))
			}
			ps = append(ps, strings.Join(calls, " "))
		}
		c.Emit("wc | %s", strings.Join(ps, " / "))
		c.Count("random")
	}
	// F5: 5-9 calls issued at ONE virtual instant on one object (the order in which the runtime runs them is free; the
	// monitor has to search the interleavings of that instant): either one call per goroutine or 2-3 calls per goroutine
	oneOp := func() string {
		switch c.Rng.Intn(8) {
		case 0, 1:
			return "C"
		case 2:
			return "I"
		case 3, 4:
			return fmt.Sprintf("W%d", c.Rng.Pick([]int{-1, 0, 1, 5}))
		case 5:
			return "Xn"
		case 6:
			return fmt.Sprintf("Xs%d", c.Rng.Pick([]int{0, 5}))
		default:
			return fmt.Sprintf("X%c%d", "pe"[c.Rng.Intn(2)], c.Rng.Pick([]int{0, 3}))
		}
	}
	for i := 0; i < c.Budget(200, 4000); i++ {
		t0 := c.Rng.Pick([]int{0, 0, 3})
		var ps []string
		if c.Rng.Bool() {
			for g := c.Rng.Range(5, 9); g > 0; g-- {
				ps = append(ps, fmt.Sprintf("%d:%s", t0, oneOp()))
			}
		} else {
			total := c.Rng.Range(5, 9)
			n := c.Rng.Range(2, 4)
			per := make([][]string, n)
			for k := 0; k < total; k++ {
				g := k % n
				per[g] = append(per[g], fmt.Sprintf("%d:%s", t0, oneOp()))
			}
			for _, p := range per {
				ps = append(ps, strings.Join(p, " "))
			}
		}
		c.Emit("wc | %s", strings.Join(ps, " / "))
		c.Count("one_instant")
	}
	// F6 (oracle-only, not covered by the Lean model): the callback leaves through runtime.Goexit; afterwards the object
	// must be closed for good: IsClosed, C(), WaitUtil, further Close calls with a (counting) callback
	for _, pre := range []string{"", "0:C ", "0:I ", "0:W0 "} {
		for _, d := range []int{0, 5} {
			for _, later := range []string{"Xs2", "Xn", "Xp1", "Xg1"} {
				for b := 0; b <= 8; b += 2 {
					c.Emit("wc | %s1:Xg%d 20:I 21:C 22:W5 23:%s 30:I 31:C / %d:%s %d:I 40:W3 / 3:W20 45:Xe0 46:I", pre, d, later, b, later, b+1)
					c.Count("goexit_callback")
				}
			}
		}
	}
	// L3: stress with real goroutines
	for i := 0; i < c.Budget(4, 40); i++ {
		c.Emit("stress %d %d %d", c.Rng.Range(2, 8), c.Budget(2000, 10000), c.Rng.U64()>>1)
		c.Count("stress")
	}
}
