// C13 harness: op sequences on the real iox.Buffer / iox.OctetsStream.
//
//	buffer | write <payload> ; read <k> ; next <n> ; seek <off> <whence> ; tidy ; reset ; grow <n>
//	stream | write <payload> ; wbyte <b> ; wbool <0|1> ; wi16 <d> ; wi32 <d> ; wi64 <d> ; read <k> ; rbyte ;
//	         tidy ; reset ; seek <off> <whence>
//	<payload> = hex | "-" (empty) | "#<n>:<s>" (n bytes, byte j = (s+j) mod 256)
//
// Observation: per op `<result> / <Bytes> <Len> <String> <Seek(0,Current)> <Cap>` (buffer) resp.
// `<result> / <Bytes> <Len> <Position>` (stream), joined by " ; ". Byte strings longer than 16 bytes are
// rendered as `<len>:<crc32>`. Every call is made under recover (-> `panic`).
package main

import (
	"encoding/hex"
	"errors"
	"fmt"
	"hash/crc32"
	"io"
	"strconv"
	"strings"

	"github.com/lixianmin/got/iox"
	"verif/harness/hx"
)

func rd(b []byte) string {
	if len(b) == 0 {
		return "-"
	}
	if len(b) <= 16 {
		return hex.EncodeToString(b)
	}
	return fmt.Sprintf("%d:%08x", len(b), crc32.ChecksumIEEE(b))
}

func errName(err error) string {
	switch {
	case err == nil:
		return "nil"
	case errors.Is(err, io.EOF):
		return "eof"
	case errors.Is(err, iox.ErrInvalidArgument):
		return "inval"
	case errors.Is(err, iox.ErrNotEnoughData):
		return "nodata"
	case err.Error() == "iox.Buffer: invalid seek":
		return "bad"
	}
	return "other:" + strings.ReplaceAll(err.Error(), " ", "_")
}

// safe runs one call; a panic is rendered as "panic"
func safe(f func() string) (out string) {
	defer func() {
		if r := recover(); r != nil {
			out = "panic"
		}
	}()
	return f()
}

func payload(tok string) ([]byte, bool) {
	if tok == "-" {
		return []byte{}, true
	}
	if strings.HasPrefix(tok, "#") {
		parts := strings.Split(tok[1:], ":")
		if len(parts) != 2 {
			return nil, false
		}
		n, e1 := strconv.Atoi(parts[0])
		s, e2 := strconv.Atoi(parts[1])
		if e1 != nil || e2 != nil || n < 0 {
			return nil, false
		}
		b := make([]byte, n)
		for j := range b {
			b[j] = byte((s + j) % 256)
		}
		return b, true
	}
	b, err := hex.DecodeString(tok)
	return b, err == nil
}

// ---------------------------------------------------------------- buffer

func bufOp(b *iox.Buffer, w []string) string {
	switch {
	case w[0] == "write" && len(w) == 2:
		p, ok := payload(w[1])
		if !ok {
			return "bad-op"
		}
		return safe(func() string {
			n, err := b.Write(p)
			if err != nil {
				return fmt.Sprintf("w %d %s", n, errName(err))
			}
			return fmt.Sprintf("w %d", n)
		})
	case w[0] == "read" && len(w) == 2:
		k, err := strconv.Atoi(w[1])
		if err != nil || k < 0 || k > 1<<24 {
			return "bad-op"
		}
		return safe(func() string {
			p := make([]byte, k)
			n, err := b.Read(p)
			if n < 0 || n > k {
				return fmt.Sprintf("r badcount%d %s", n, errName(err))
			}
			return fmt.Sprintf("r %s %s", rd(p[:n]), errName(err))
		})
	case w[0] == "next" && len(w) == 2:
		n, err := strconv.Atoi(w[1])
		if err != nil {
			return "bad-op"
		}
		return safe(func() string { return "x " + rd(b.Next(n)) })
	case w[0] == "seek" && len(w) == 3:
		o, e1 := strconv.ParseInt(w[1], 10, 64)
		wh, e2 := strconv.Atoi(w[2])
		if e1 != nil || e2 != nil {
			return "bad-op"
		}
		return safe(func() string {
			ret, err := b.Seek(o, wh)
			return fmt.Sprintf("s %d %s", ret, errName(err))
		})
	case w[0] == "tidy" && len(w) == 1:
		return safe(func() string { b.Tidy(); return "t" })
	case w[0] == "reset" && len(w) == 1:
		return safe(func() string { b.Reset(); return "z" })
	case w[0] == "grow" && len(w) == 2:
		n, err := strconv.Atoi(w[1])
		if err != nil {
			return "bad-op"
		}
		return safe(func() string { b.Grow(n); return "g" })
	}
	return "bad-op"
}

func bufObserve(b *iox.Buffer) string {
	by := safe(func() string { return rd(b.Bytes()) })
	ln := safe(func() string { return strconv.Itoa(b.Len()) })
	st := safe(func() string { return rd([]byte(b.String())) })
	pos := safe(func() string {
		ret, err := b.Seek(0, io.SeekCurrent)
		if err != nil {
			return "bad"
		}
		return strconv.FormatInt(ret, 10)
	})
	cp := safe(func() string { return strconv.Itoa(b.Cap()) })
	return by + " " + ln + " " + st + " " + pos + " " + cp
}

func runBuffer(ops []string) string {
	b := &iox.Buffer{}
	out := make([]string, 0, len(ops))
	for _, o := range ops {
		w := strings.Fields(o)
		if len(w) == 0 {
			continue
		}
		r := bufOp(b, w)
		if r == "bad-op" {
			out = append(out, r)
			break
		}
		out = append(out, r+" / "+bufObserve(b))
	}
	return strings.Join(out, " ; ")
}

// ---------------------------------------------------------------- stream

func strOp(s *iox.OctetsStream, w []string) string {
	wr := func(f func() error) string {
		return safe(func() string { return "w " + errName(f()) })
	}
	num := func(bits int) (int64, bool) {
		if len(w) != 2 {
			return 0, false
		}
		d, err := strconv.ParseInt(w[1], 10, bits)
		return d, err == nil
	}
	switch w[0] {
	case "write":
		if len(w) != 2 {
			return "bad-op"
		}
		p, ok := payload(w[1])
		if !ok {
			return "bad-op"
		}
		return wr(func() error { return s.Write(p) })
	case "wbyte":
		d, ok := num(16)
		if !ok || d < 0 {
			return "bad-op"
		}
		return wr(func() error { return s.WriteByte(byte(d % 256)) })
	case "wbool":
		d, ok := num(16)
		if !ok {
			return "bad-op"
		}
		return wr(func() error { return s.WriteBool(d != 0) })
	case "wi16":
		d, ok := num(16)
		if !ok {
			return "bad-op"
		}
		return wr(func() error { return s.WriteInt16(int16(d)) })
	case "wi32":
		d, ok := num(32)
		if !ok {
			return "bad-op"
		}
		return wr(func() error { return s.WriteInt32(int32(d)) })
	case "wi64":
		d, ok := num(64)
		if !ok {
			return "bad-op"
		}
		return wr(func() error { return s.WriteInt64(d) })
	case "read":
		if len(w) != 2 {
			return "bad-op"
		}
		k, err := strconv.Atoi(w[1])
		if err != nil || k < 0 || k > 1<<24 {
			return "bad-op"
		}
		return safe(func() string {
			p := make([]byte, k)
			n, err := s.Read(p)
			if n < 0 || n > k {
				return fmt.Sprintf("r badcount%d %s", n, errName(err))
			}
			return fmt.Sprintf("r %s %s", rd(p[:n]), errName(err))
		})
	case "rbyte":
		return safe(func() string {
			v, err := s.ReadByte()
			return fmt.Sprintf("b %02x %s", v, errName(err))
		})
	case "tidy":
		return safe(func() string { s.Tidy(); return "t" })
	case "reset":
		return safe(func() string { s.Reset(); return "z" })
	case "seek":
		if len(w) != 3 {
			return "bad-op"
		}
		o, e1 := strconv.ParseInt(w[1], 10, 64)
		wh, e2 := strconv.Atoi(w[2])
		if e1 != nil || e2 != nil {
			return "bad-op"
		}
		return safe(func() string {
			ret, err := s.Seek(o, wh)
			return fmt.Sprintf("s %d %s", ret, errName(err))
		})
	}
	return "bad-op"
}

func strObserve(s *iox.OctetsStream) string {
	by := safe(func() string { return rd(s.Bytes()) })
	ln := safe(func() string { return strconv.Itoa(s.Len()) })
	pos := safe(func() string { return strconv.Itoa(s.Position()) })
	return by + " " + ln + " " + pos
}

func runStream(ops []string) string {
	s := &iox.OctetsStream{}
	out := make([]string, 0, len(ops))
	for _, o := range ops {
		w := strings.Fields(o)
		if len(w) == 0 {
			continue
		}
		r := strOp(s, w)
		if r == "bad-op" {
			out = append(out, r)
			break
		}
		out = append(out, r+" / "+strObserve(s))
	}
	return strings.Join(out, " ; ")
}

func splitLine(line string) (string, []string, bool) {
	i := strings.Index(line, " | ")
	if i < 0 {
		return "", nil, false
	}
	head := strings.TrimSpace(line[:i])
	var ops []string
	for _, o := range strings.Split(line[i+3:], ";") {
		o = strings.TrimSpace(o)
		if o != "" {
			ops = append(ops, o)
		}
	}
	return head, ops, true
}

func exec(c *hx.Ctx, line string) string {
	head, ops, ok := splitLine(line)
	if !ok {
		return "bad-op"
	}
	if len(ops) == 0 {
		return "noop"
	}
	switch head {
	case "buffer":
		return runBuffer(ops)
	case "stream":
		return runStream(ops)
	}
	return "bad-op"
}

func main() { hx.Main(gen, exec) }
