// C13 harness: op sequences on the real iox.Buffer / iox.OctetsStream.
//
//	buffer | write <payload> ; read <k> ; next <n> ; seek <off> <whence> ; tidy ; reset ; grow <n>
//	stream | write <payload> ; wbyte <b> ; wbool <0|1> ; wi16 <d> ; wi32 <d> ; wi64 <d> ; read <k> ; rbyte ;
//	         tidy ; reset ; seek <off> <whence>
//	item = op | `rep <k> ( op , op , ... )` (k rounds of the body; `$` in the body = round number mod 251)
//	op   = [<letter>:] <operation>   (object selector, default a; several objects of the same kind may live in one case)
//	<payload> = hex | "-" (empty) | "#<n>:<s>" (n bytes, byte j = (s+j) mod 256)
//	          | "@<n>:<s>" (n bytes, byte j = byte (j mod 4) of the little-endian uint32 (s<<22)+j/4: no period, for large chunks)
//
// Caller-memory discipline (aliasing): every Write gets its bytes in ONE source scratch slice that is reused by all writes
// of the run and is overwritten with 0xEE right after the call returns (before anything is observed), the way a receive
// loop reuses its buffer (Buffer.ReadOnce). The spare capacity behind the chunk is a 0xEE canary that must stay intact, and
// the chunk itself must not be modified by the call. All Reads go into ONE destination scratch slice, which is overwritten
// with 0xDD after the returned bytes have been rendered. Slices returned by Next()/Bytes() are rendered immediately and
// never looked at again (they are documented to be invalid after the next modification).
//
// Observation: per op `<result> / <Bytes> <Len> <String> <Seek(0,Current)> <Cap>` (buffer) resp.
// `<result> / <Bytes> <Len> <Position>` (stream), joined by " ; ". Byte strings longer than 16 bytes are
// rendered as `<len>:<crc32>`. Every call is made under recover (-> `panic`).
package main

import (
	"encoding/hex"
	"errors"
	"fmt"
	"hash/crc32"
	"io"
	"strconv"
	"strings"

	"github.com/lixianmin/got/iox"
	"verif/harness/hx"
)

func rd(b []byte) string {
	if len(b) == 0 {
		return "-"
	}
	if len(b) <= 16 {
		return hex.EncodeToString(b)
	}
	return fmt.Sprintf("%d:%08x", len(b), crc32.ChecksumIEEE(b))
}

func errName(err error) string {
	switch {
	case err == nil:
		return "nil"
	case errors.Is(err, io.EOF):
		return "eof"
	case errors.Is(err, iox.ErrInvalidArgument):
		return "inval"
	case errors.Is(err, iox.ErrNotEnoughData):
		return "nodata"
	case err.Error() == "iox.Buffer: invalid seek":
		return "bad"
	}
	return "other:" + strings.ReplaceAll(err.Error(), " ", "_")
}

// safe runs one call; a panic is rendered as "panic"
func safe(f func() string) (out string) {
	defer func() {
		if r := recover(); r != nil {
			out = "panic"
		}
	}()
	return f()
}

func payload(tok string) ([]byte, bool) {
	if tok == "-" {
		return []byte{}, true
	}
	if strings.HasPrefix(tok, "#") {
		parts := strings.Split(tok[1:], ":")
		if len(parts) != 2 {
			return nil, false
		}
		n, e1 := strconv.Atoi(parts[0])
		s, e2 := strconv.Atoi(parts[1])
		if e1 != nil || e2 != nil || n < 0 {
			return nil, false
		}
		b := make([]byte, n)
		for j := range b {
			b[j] = byte((s + j) % 256)
		}
		return b, true
	}
	if strings.HasPrefix(tok, "@") {
		parts := strings.Split(tok[1:], ":")
		if len(parts) != 2 {
			return nil, false
		}
		n, e1 := strconv.Atoi(parts[0])
		s, e2 := strconv.Atoi(parts[1])
		if e1 != nil || e2 != nil || n < 0 || n > 1<<24 || s < 0 || s > 255 {
			return nil, false
		}
		b := make([]byte, n)
		base := uint32(s) << 22
		for j := range b {
			b[j] = byte((base + uint32(j/4)) >> (8 * uint(j%4)))
		}
		return b, true
	}
	b, err := hex.DecodeString(tok)
	return b, err == nil
}

// session: the caller-side memory of one run (see the header comment)
type session struct {
	src []byte // source scratch of all writes
	dst []byte // destination scratch of all reads
}

const canary = 4096 // spare capacity behind every written chunk, filled with 0xEE

// source copies the chunk into the shared source scratch and returns it as a slice with spare (canary) capacity
func (ss *session) source(p []byte) []byte {
	need := len(p) + canary
	if cap(ss.src) < need {
		ss.src = make([]byte, need+need/2)
	}
	ss.src = ss.src[:cap(ss.src)]
	copy(ss.src, p)
	for i := len(p); i < len(p)+canary; i++ {
		ss.src[i] = 0xEE
	}
	return ss.src[:len(p)]
}

// afterWrite checks that the call neither modified the chunk nor wrote behind it, then scribbles over the chunk
func (ss *session) afterWrite(q []byte, sum uint32) string {
	res := ""
	if crc32.ChecksumIEEE(q) != sum {
		res = " srcmod"
	}
	for _, v := range ss.src[len(q) : len(q)+canary] {
		if v != 0xEE {
			res += " clobber"
			break
		}
	}
	for i := range q {
		q[i] = 0xEE
	}
	return res
}

func (ss *session) dest(k int) []byte {
	if cap(ss.dst) < k {
		ss.dst = make([]byte, k+k/2)
	}
	return ss.dst[:k]
}

func scribble(p []byte) {
	for i := range p {
		p[i] = 0xDD
	}
}

// ---------------------------------------------------------------- buffer

func bufOp(ss *session, b *iox.Buffer, w []string) string {
	switch {
	case w[0] == "write" && len(w) == 2:
		p, ok := payload(w[1])
		if !ok {
			return "bad-op"
		}
		q := ss.source(p)
		sum := crc32.ChecksumIEEE(q)
		return safe(func() string {
			n, err := b.Write(q)
			extra := ss.afterWrite(q, sum)
			if err != nil {
				return fmt.Sprintf("w %d %s%s", n, errName(err), extra)
			}
			return fmt.Sprintf("w %d%s", n, extra)
		})
	case w[0] == "read" && len(w) == 2:
		k, err := strconv.Atoi(w[1])
		if err != nil || k < 0 || k > 1<<24 {
			return "bad-op"
		}
		return safe(func() string {
			p := ss.dest(k)
			n, err := b.Read(p)
			if n < 0 || n > k {
				return fmt.Sprintf("r badcount%d %s", n, errName(err))
			}
			res := fmt.Sprintf("r %s %s", rd(p[:n]), errName(err))
			scribble(p)
			return res
		})
	case w[0] == "next" && len(w) == 2:
		n, err := strconv.Atoi(w[1])
		if err != nil {
			return "bad-op"
		}
		return safe(func() string { return "x " + rd(b.Next(n)) })
	case w[0] == "seek" && len(w) == 3:
		o, e1 := strconv.ParseInt(w[1], 10, 64)
		wh, e2 := strconv.Atoi(w[2])
		if e1 != nil || e2 != nil {
			return "bad-op"
		}
		return safe(func() string {
			ret, err := b.Seek(o, wh)
			return fmt.Sprintf("s %d %s", ret, errName(err))
		})
	case w[0] == "tidy" && len(w) == 1:
		return safe(func() string { b.Tidy(); return "t" })
	case w[0] == "reset" && len(w) == 1:
		return safe(func() string { b.Reset(); return "z" })
	case w[0] == "grow" && len(w) == 2:
		n, err := strconv.Atoi(w[1])
		if err != nil {
			return "bad-op"
		}
		return safe(func() string { b.Grow(n); return "g" })
	}
	return "bad-op"
}

func bufObserve(b *iox.Buffer) string {
	by := safe(func() string { return rd(b.Bytes()) })
	ln := safe(func() string { return strconv.Itoa(b.Len()) })
	st := safe(func() string { return rd([]byte(b.String())) })
	pos := safe(func() string {
		ret, err := b.Seek(0, io.SeekCurrent)
		if err != nil {
			return "bad"
		}
		return strconv.FormatInt(ret, 10)
	})
	cp := safe(func() string { return strconv.Itoa(b.Cap()) })
	return by + " " + ln + " " + st + " " + pos + " " + cp
}

// ---------------------------------------------------------------- stream

func strOp(ss *session, s *iox.OctetsStream, w []string) string {
	wr := func(f func() error) string {
		return safe(func() string { return "w " + errName(f()) })
	}
	num := func(bits int) (int64, bool) {
		if len(w) != 2 {
			return 0, false
		}
		d, err := strconv.ParseInt(w[1], 10, bits)
		return d, err == nil
	}
	switch w[0] {
	case "write":
		if len(w) != 2 {
			return "bad-op"
		}
		p, ok := payload(w[1])
		if !ok {
			return "bad-op"
		}
		q := ss.source(p)
		sum := crc32.ChecksumIEEE(q)
		return safe(func() string {
			err := s.Write(q)
			return "w " + errName(err) + ss.afterWrite(q, sum)
		})
	case "wbyte":
		d, ok := num(16)
		if !ok || d < 0 {
			return "bad-op"
		}
		return wr(func() error { return s.WriteByte(byte(d % 256)) })
	case "wbool":
		d, ok := num(16)
		if !ok {
			return "bad-op"
		}
		return wr(func() error { return s.WriteBool(d != 0) })
	case "wi16":
		d, ok := num(16)
		if !ok {
			return "bad-op"
		}
		return wr(func() error { return s.WriteInt16(int16(d)) })
	case "wi32":
		d, ok := num(32)
		if !ok {
			return "bad-op"
		}
		return wr(func() error { return s.WriteInt32(int32(d)) })
	case "wi64":
		d, ok := num(64)
		if !ok {
			return "bad-op"
		}
		return wr(func() error { return s.WriteInt64(d) })
	case "read":
		if len(w) != 2 {
			return "bad-op"
		}
		k, err := strconv.Atoi(w[1])
		if err != nil || k < 0 || k > 1<<24 {
			return "bad-op"
		}
		return safe(func() string {
			p := ss.dest(k)
			n, err := s.Read(p)
			if n < 0 || n > k {
				return fmt.Sprintf("r badcount%d %s", n, errName(err))
			}
			res := fmt.Sprintf("r %s %s", rd(p[:n]), errName(err))
			scribble(p)
			return res
		})
	case "rbyte":
		return safe(func() string {
			v, err := s.ReadByte()
			return fmt.Sprintf("b %02x %s", v, errName(err))
		})
	case "tidy":
		return safe(func() string { s.Tidy(); return "t" })
	case "reset":
		return safe(func() string { s.Reset(); return "z" })
	case "seek":
		if len(w) != 3 {
			return "bad-op"
		}
		o, e1 := strconv.ParseInt(w[1], 10, 64)
		wh, e2 := strconv.Atoi(w[2])
		if e1 != nil || e2 != nil {
			return "bad-op"
		}
		return safe(func() string {
			ret, err := s.Seek(o, wh)
			return fmt.Sprintf("s %d %s", ret, errName(err))
		})
	}
	return "bad-op"
}

func strObserve(s *iox.OctetsStream) string {
	by := safe(func() string { return rd(s.Bytes()) })
	ln := safe(func() string { return strconv.Itoa(s.Len()) })
	pos := safe(func() string { return strconv.Itoa(s.Position()) })
	return by + " " + ln + " " + pos
}

// ---------------------------------------------------------------- script language

const maxExpandedOps = 50000

// expand replaces every item `rep <k> ( op , op , ... )` by k copies of its body; inside the body `$` stands for the
// round number modulo 251 (so that every round can write different bytes). The driver (Lean) and the oracle (Python)
// expand in exactly the same way.
func expand(items []string) ([]string, bool) {
	out := make([]string, 0, len(items))
	for _, it := range items {
		w := strings.Fields(it)
		if len(w) == 0 {
			continue
		}
		if w[0] != "rep" {
			out = append(out, it)
			continue
		}
		if len(w) < 5 || w[2] != "(" || w[len(w)-1] != ")" {
			return nil, false
		}
		k, err := strconv.Atoi(w[1])
		if err != nil || k < 0 || k > maxExpandedOps {
			return nil, false
		}
		var body []string
		for _, part := range strings.Split(strings.Join(w[3:len(w)-1], " "), ",") {
			if part = strings.TrimSpace(part); part != "" {
				body = append(body, part)
			}
		}
		if len(out)+k*len(body) > maxExpandedOps {
			return nil, false
		}
		for i := 0; i < k; i++ {
			round := strconv.Itoa(i % 251)
			for _, part := range body {
				out = append(out, strings.ReplaceAll(part, "$", round))
			}
		}
	}
	return out, len(out) <= maxExpandedOps
}

// selector: an op may start with `<letter>:` naming the object it is applied to (default `a`); every object is a fresh
// zero value on first use, all objects of a line live in the same process at the same time.
func selector(w []string) (byte, []string) {
	if len(w) > 0 && len(w[0]) == 2 && w[0][1] == ':' && w[0][0] >= 'a' && w[0][0] <= 'z' {
		return w[0][0], w[1:]
	}
	return 'a', w
}

func runObjects(kind string, ops []string) string {
	bufs := map[byte]*iox.Buffer{}
	strs := map[byte]*iox.OctetsStream{}
	ss := &session{}
	out := make([]string, 0, len(ops))
	for _, o := range ops {
		sel, w := selector(strings.Fields(o))
		if len(w) == 0 {
			out = append(out, "bad-op")
			break
		}
		var r, obs string
		if kind == "buffer" {
			b := bufs[sel]
			if b == nil {
				b = &iox.Buffer{}
				bufs[sel] = b
			}
			if r = bufOp(ss, b, w); r != "bad-op" {
				obs = bufObserve(b)
			}
		} else {
			s := strs[sel]
			if s == nil {
				s = &iox.OctetsStream{}
				strs[sel] = s
			}
			if r = strOp(ss, s, w); r != "bad-op" {
				obs = strObserve(s)
			}
		}
		if r == "bad-op" {
			out = append(out, r)
			break
		}
		out = append(out, r+" / "+obs)
	}
	return strings.Join(out, " ; ")
}

func splitLine(line string) (string, []string, bool) {
	i := strings.Index(line, " | ")
	if i < 0 {
		return "", nil, false
	}
	head := strings.TrimSpace(line[:i])
	var ops []string
	for _, o := range strings.Split(line[i+3:], ";") {
		o = strings.TrimSpace(o)
		if o != "" {
			ops = append(ops, o)
		}
	}
	return head, ops, true
}

func exec(c *hx.Ctx, line string) string {
	head, items, ok := splitLine(line)
	if !ok || (head != "buffer" && head != "stream") {
		return "bad-op"
	}
	ops, ok := expand(items)
	if !ok {
		return "bad-op"
	}
	if len(ops) == 0 {
		return "noop"
	}
	return runObjects(head, ops)
}

func main() { hx.Main(gen, exec) }
