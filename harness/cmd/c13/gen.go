package main

import (
	"encoding/hex"
	"fmt"
	"io"
	"math"
	"strconv"
	"strings"

	"github.com/lixianmin/got/iox"
	"verif/harness/hx"
)

// probe: the generators run the real object alongside to aim at state-dependent boundaries
// (len, len+1, cap-len, cap/2-unread, ...). The emitted script lines contain literal numbers only.
type probe struct {
	kind string
	b    *iox.Buffer
	s    *iox.OctetsStream
	ss   *session
}

func newProbe(kind string) *probe {
	return &probe{kind: kind, b: &iox.Buffer{}, s: &iox.OctetsStream{}, ss: &session{}}
}

func (p *probe) apply(op string) {
	w := strings.Fields(op)
	if p.kind == "buffer" {
		bufOp(p.ss, p.b, w)
	} else {
		strOp(p.ss, p.s, w)
	}
}

// state: cursor position, retained length, unread length, capacity (0 for the stream)
func (p *probe) state() (pos, total, unread, capacity int) {
	defer func() {
		if recover() != nil {
			pos, total, unread, capacity = 0, 0, 0, 0
		}
	}()
	if p.kind == "buffer" {
		ret, err := p.b.Seek(0, io.SeekCurrent)
		if err == nil {
			pos = int(ret)
		}
		unread = p.b.Len()
		return pos, pos + unread, unread, p.b.Cap()
	}
	pos, total = p.s.Position(), p.s.Len()
	return pos, total, total - pos, 0
}

func dedupe(xs []string) []string {
	seen := map[string]bool{}
	out := xs[:0:0]
	for _, x := range xs {
		if !seen[x] {
			seen[x] = true
			out = append(out, x)
		}
	}
	return out
}

// seekOps: for every target position t and whence 0/1/2 the offset that aims at t, plus invalid whences
func seekOps(targets []int, whences []int, pos, total int) []string {
	var out []string
	for _, wh := range whences {
		for _, t := range targets {
			switch wh {
			case 0:
				out = append(out, fmt.Sprintf("seek %d 0", t))
			case 1:
				out = append(out, fmt.Sprintf("seek %d 1", t-pos))
			case 2:
				out = append(out, fmt.Sprintf("seek %d 2", t-total))
			}
		}
	}
	return out
}

func payloadAt(depth, size int) string {
	if size == 0 {
		return "-"
	}
	b := make([]byte, size)
	for j := range b {
		b[j] = byte(16*(depth+1) + j + 1)
	}
	return hex.EncodeToString(b)
}

// alphabet of the bounded-exhaustive enumeration at a node whose state is (pos,total).
// level 0 = full, 1 = medium, 2 = reduced
func alphabet(kind string, level, depth, pos, total int) []string {
	var ops []string
	wsz := [][]int{{0, 1, 3}, {1, 3}, {1, 3}}[level]
	for _, n := range wsz {
		ops = append(ops, "write "+payloadAt(depth, n))
	}
	rsz := [][]int{{0, 1, 2, 100}, {0, 1, 100}, {1, 100}}[level]
	for _, k := range rsz {
		ops = append(ops, fmt.Sprintf("read %d", k))
	}
	targets := []int{-1, 0, 1, total, total + 1}
	switch level {
	case 0:
		ops = append(ops, seekOps(targets, []int{0, 1, 2}, pos, total)...)
		ops = append(ops, "seek 0 3", "seek 0 -1")
	case 1:
		ops = append(ops, seekOps(targets, []int{0}, pos, total)...)
		ops = append(ops, "seek -1 1", "seek 1 1", "seek 0 2", "seek -1 2", "seek 1 2", "seek 0 3")
	default:
		ops = append(ops, "seek 0 0", "seek 1 1", "seek -1 2", fmt.Sprintf("seek %d 0", total+1))
	}
	ops = append(ops, "tidy", "reset")
	if kind == "buffer" {
		nsz := [][]int{{0, 1, 2, 100, math.MaxInt}, {1, 100}, {2}}[level]
		for _, n := range nsz {
			ops = append(ops, fmt.Sprintf("next %d", n))
		}
		gsz := [][]int{{0, 1, 70, 1 << 62}, {1, 70}, {70}}[level] // 1<<62: the documented ErrTooLarge panic, then go on
		for _, n := range gsz {
			ops = append(ops, fmt.Sprintf("grow %d", n))
		}
	} else {
		ops = append(ops, "rbyte")
		if level <= 1 {
			ops = append(ops, fmt.Sprintf("wbyte %d", 0xe0+depth))
		}
		if level == 0 {
			ops = append(ops, "wi16 -2")
		}
	}
	return dedupe(ops)
}

// exhaustive: every sequence of exactly n ops (all shorter sequences are covered as prefixes, because an
// observation is taken after every op)
func exhaustive(c *hx.Ctx, kind string, n, level int, class string) {
	var rec func(prefix []string)
	rec = func(prefix []string) {
		if len(prefix) == n {
			c.Emit("%s | %s", kind, strings.Join(prefix, " ; "))
			c.Count(class)
			return
		}
		p := newProbe(kind)
		for _, o := range prefix {
			p.apply(o)
		}
		pos, total, _, _ := p.state()
		for _, o := range alphabet(kind, level, len(prefix), pos, total) {
			rec(append(prefix[:len(prefix):len(prefix)], o))
		}
	}
	rec(nil)
}

var thresholds = []int{0, 1, 2, 3, 31, 32, 33, 63, 64, 65, 127, 128, 129, 255, 256, 257}

func nonneg(xs []int) []int {
	out := xs[:0:0]
	for _, x := range xs {
		if x >= 0 && x <= 4096 {
			out = append(out, x)
		}
	}
	return out
}

func pickSize(c *hx.Ctx, boundary []int, maxRand int) int {
	boundary = nonneg(boundary)
	switch r := c.Rng.Intn(10); {
	case r < 4 && len(boundary) > 0:
		return c.Rng.Pick(boundary)
	case r < 7:
		return c.Rng.Pick(thresholds)
	default:
		return c.Rng.Intn(maxRand + 1)
	}
}

func randomSeek(c *hx.Ctx, pos, total int) string {
	r := c.Rng.Intn(100)
	if r < 4 { // int64 extremes: the additions num+offset / next+off wrap in Go
		ext := []int64{math.MaxInt64, math.MinInt64, math.MaxInt64 - int64(pos), math.MaxInt64 - int64(total) + 1,
			math.MinInt64 + int64(total), math.MaxInt64 - 1, math.MinInt64 + 1}
		return fmt.Sprintf("seek %d %d", ext[c.Rng.Intn(len(ext))], c.Rng.Intn(3))
	}
	if r < 9 {
		return fmt.Sprintf("seek %d %d", c.Rng.Range(-2, total+2), c.Rng.Pick([]int{3, -1, 4, 100, math.MinInt32}))
	}
	targets := []int{-1, 0, 1, pos - 1, pos, pos + 1, total - 1, total, total + 1, total + 2, c.Rng.Range(0, total), c.Rng.Range(0, total)}
	t := c.Rng.Pick(targets)
	switch c.Rng.Intn(3) {
	case 0:
		return fmt.Sprintf("seek %d 0", t)
	case 1:
		return fmt.Sprintf("seek %d 1", t-pos)
	}
	return fmt.Sprintf("seek %d 2", t-total)
}

func randPayload(c *hx.Ctx, n int) string {
	if n == 0 {
		return "-"
	}
	if n <= 4 && c.Rng.Bool() {
		return hex.EncodeToString(c.Rng.Bytes(n))
	}
	return fmt.Sprintf("#%d:%d", n, c.Rng.Intn(256))
}

// randomSeq: one long random op sequence; sizes aim at the 64-byte small buffer, the doubling thresholds
// and the state-dependent boundaries of tryGrowByReslice (n = cap-len) and of the slide test (n = cap/2-unread).
func randomSeq(c *hx.Ctx, kind string, maxLen int, offDomain bool) string {
	p := newProbe(kind)
	n := c.Rng.Range(3, maxLen)
	ops := make([]string, 0, n)
	for i := 0; i < n; i++ {
		pos, total, unread, capacity := p.state()
		var op string
		r := c.Rng.Intn(100)
		if kind == "buffer" {
			switch {
			case r < 34:
				sz := pickSize(c, []int{capacity - total, capacity - total + 1, capacity - total - 1,
					capacity/2 - unread, capacity/2 - unread + 1, capacity/2 - unread - 1, capacity - unread, capacity - unread + 1}, 200)
				op = "write " + randPayload(c, sz)
			case r < 48:
				op = fmt.Sprintf("read %d", pickSize(c, []int{unread - 1, unread, unread + 1, 100}, 150))
			case r < 60:
				sz := pickSize(c, []int{unread - 1, unread, unread + 1, 100}, 150)
				if c.Rng.Intn(10) == 0 { // sizes near MaxInt: off+n must not be computed in int
					sz = c.Rng.Pick([]int{math.MaxInt, math.MaxInt - 1, math.MaxInt - pos, math.MaxInt - pos + 1, math.MaxInt / 2})
				}
				if offDomain && c.Rng.Intn(4) == 0 {
					sz = c.Rng.Pick([]int{-1, -2, -100, math.MinInt64})
				}
				op = fmt.Sprintf("next %d", sz)
			case r < 76:
				op = randomSeek(c, pos, total)
			case r < 84:
				op = "tidy"
			case r < 87:
				op = "reset"
			default:
				sz := pickSize(c, []int{capacity - total, capacity - total + 1, capacity/2 - unread, capacity/2 - unread + 1, 70}, 200)
				if c.Rng.Intn(12) == 0 {
					sz = hugeGrow(c, capacity)
				}
				if offDomain && c.Rng.Intn(3) == 0 {
					sz = c.Rng.Pick([]int{-1, -64, math.MinInt64})
				}
				op = fmt.Sprintf("grow %d", sz)
			}
		} else {
			switch {
			case r < 25:
				op = "write " + randPayload(c, pickSize(c, []int{unread, 8}, 100))
			case r < 30:
				op = fmt.Sprintf("wbyte %d", c.Rng.Intn(256))
			case r < 33:
				op = fmt.Sprintf("wbool %d", c.Rng.Intn(2))
			case r < 37:
				op = fmt.Sprintf("wi16 %d", int16(c.Rng.U64()))
			case r < 41:
				op = fmt.Sprintf("wi32 %d", int32(c.Rng.U64()))
			case r < 45:
				op = fmt.Sprintf("wi64 %d", int64(c.Rng.U64()))
			case r < 60:
				op = fmt.Sprintf("read %d", pickSize(c, []int{unread - 1, unread, unread + 1, 100}, 150))
			case r < 68:
				op = "rbyte"
			case r < 88:
				op = randomSeek(c, pos, total)
			case r < 96:
				op = "tidy"
			default:
				op = "reset"
			}
		}
		before := [4]int{pos, total, unread, capacity}
		p.apply(op)
		if kind == "buffer" && (strings.HasPrefix(op, "write") || strings.HasPrefix(op, "grow")) {
			countGrowBranch(c, op, before, p)
		}
		ops = append(ops, op)
	}
	return kind + " | " + strings.Join(ops, " ; ")
}

// countGrowBranch classifies which branch of Buffer.grow the op took (for the input distribution only)
func countGrowBranch(c *hx.Ctx, op string, before [4]int, p *probe) {
	pos0, total0, unread0, cap0 := before[0], before[1], before[2], before[3]
	pos1, _, _, cap1 := p.state()
	sz := 0
	if w := strings.Fields(op); w[0] == "grow" {
		sz, _ = strconv.Atoi(w[1])
	} else if b, ok := payload(w[1]); ok {
		sz = len(b)
	}
	if sz < 0 {
		c.Count("branch_negative")
		return
	}
	switch {
	case cap1 != cap0 && cap0 == 0 && cap1 == 64:
		c.Count("branch_small_alloc")
	case cap1 != cap0:
		c.Count("branch_realloc")
	case pos0 > 0 && pos1 == 0 && unread0 == 0:
		c.Count("branch_reset_empty")
	case pos0 > 0 && pos1 == 0:
		c.Count("branch_slide")
		if sz == cap0/2-unread0 {
			c.Count("branch_slide_exact_boundary")
		}
	default:
		c.Count("branch_reslice")
		if sz == cap0-total0 {
			c.Count("branch_reslice_exact_fit")
		}
	}
}

// ---------------------------------------------------------------- large sizes

// largeSizes: chunk / grow / read sizes around the page size, 64 KiB and beyond
var largeSizes = []int{4095, 4096, 4097, 8192, 12000, 65535, 65536, 65537, 70000, 131072, 200000}

const mib = 1 << 20

func bigPayload(c *hx.Ctx, n int) string {
	if n == 0 {
		return "-"
	}
	return fmt.Sprintf("@%d:%d", n, c.Rng.Intn(256))
}

func pickLarge(c *hx.Ctx, allowMiB bool) int {
	if allowMiB && c.Rng.Intn(12) == 0 {
		return c.Rng.Pick([]int{mib - 1, mib, mib + 1})
	}
	n := c.Rng.Pick(largeSizes)
	if c.Rng.Intn(4) == 0 {
		n += c.Rng.Range(-3, 3)
	}
	return n
}

// remainders a drain aims at: what is left unread afterwards
var remainders = []int{0, 1, 2, 63, 64, 65, 100, 4095, 4096, 4097}

// largeSeq: a random op sequence whose writes / grows / reads have sizes around 4 KiB, 64 KiB, 200 000 and 1 MiB, mixed
// with small ones; drains stop a few bytes before the end (0,1,2,63..65,100,4095..4097 left), Tidy / Grow / small writes
// follow a drain with high probability, seeks go back into the already consumed region and are followed by reads,
// Reset / full drain is followed by another large write.
func largeSeq(c *hx.Ctx, kind string, allowMiB bool) string {
	p := newProbe(kind)
	n := c.Rng.Range(5, 22)
	ops := make([]string, 0, n)
	drained, seeked := false, false
	for i := 0; i < n; i++ {
		pos, total, unread, capacity := p.state()
		var op string
		r := c.Rng.Intn(100)
		wsize := func() int {
			switch c.Rng.Intn(10) {
			case 0, 1:
				return c.Rng.Pick(thresholds)
			case 2:
				return pickSize(c, []int{capacity - total, capacity - total + 1, capacity/2 - unread, capacity/2 - unread + 1}, 300)
			}
			return pickLarge(c, allowMiB)
		}
		rsize := func() int {
			switch c.Rng.Intn(10) {
			case 0:
				return c.Rng.Pick(thresholds)
			case 1, 2:
				return pickLarge(c, allowMiB)
			case 3:
				return c.Rng.Range(0, unread+1)
			}
			k := unread - c.Rng.Pick(remainders)
			if k < 0 {
				k = unread
			}
			return k
		}
		back := func() string { // seek back into the consumed region (or anywhere valid), through any whence
			t := 0
			switch c.Rng.Intn(5) {
			case 0:
				t = 0
			case 1:
				t = pos - 1
			case 2:
				t = pos / 2
			case 3:
				t = c.Rng.Range(0, pos)
			default:
				t = c.Rng.Range(0, total)
			}
			if t < 0 {
				t = 0
			}
			switch c.Rng.Intn(3) {
			case 0:
				return fmt.Sprintf("seek %d 0", t)
			case 1:
				return fmt.Sprintf("seek %d 1", t-pos)
			}
			return fmt.Sprintf("seek %d 2", t-total)
		}
		switch {
		case seeked: // a seek is followed by a read
			if kind == "buffer" && c.Rng.Bool() {
				op = fmt.Sprintf("next %d", c.Rng.Pick([]int{1, 44, 100, 4096, unread, unread + 1}))
			} else {
				op = fmt.Sprintf("read %d", c.Rng.Pick([]int{1, 44, 100, 4096, 70000, unread, unread + 1}))
			}
			seeked = false
		case drained && r < 55: // after a drain: compaction of some kind
			switch q := c.Rng.Intn(10); {
			case q < 5:
				op = "tidy"
			case q < 7 && kind == "buffer":
				op = fmt.Sprintf("grow %d", wsize())
			case q < 9:
				op = "write " + bigPayload(c, c.Rng.Pick([]int{1, 3, 64, 100, 4096}))
			default:
				op = "write " + bigPayload(c, wsize())
			}
			drained = false
		case r < 34 || total == 0:
			op = "write " + bigPayload(c, wsize())
		case r < 56:
			k := rsize()
			if kind == "buffer" && c.Rng.Intn(3) == 0 {
				op = fmt.Sprintf("next %d", k)
			} else {
				op = fmt.Sprintf("read %d", k)
			}
			drained = k > 0 && unread-k <= 4097
		case r < 74:
			op = back()
			seeked = true
		case r < 80:
			op = randomSeek(c, pos, total)
		case r < 88:
			op = "tidy"
		case r < 92:
			op = "reset"
		case kind == "buffer":
			if c.Rng.Intn(5) == 0 {
				op = fmt.Sprintf("grow %d", hugeGrow(c, capacity))
			} else {
				op = fmt.Sprintf("grow %d", wsize())
			}
		case r < 96:
			op = "rbyte"
		default:
			op = fmt.Sprintf("wi64 %d", int64(c.Rng.U64()))
		}
		before := [4]int{pos, total, unread, capacity}
		p.apply(op)
		if kind == "buffer" && (strings.HasPrefix(op, "write") || strings.HasPrefix(op, "grow")) {
			countGrowBranch(c, op, before, p)
		}
		if _, _, u1, c1 := p.state(); kind == "buffer" && op == "tidy" && pos > 0 {
			switch {
			case c1 > 65536 && u1 <= 64 && u1 > 0:
				c.Count("large_tidy_cap_gt_64k_unread_le_64")
			case c1 > 65536:
				c.Count("large_tidy_cap_gt_64k")
			case c1 > 4096:
				c.Count("large_tidy_cap_gt_4k")
			}
		}
		if strings.HasPrefix(op, "write @") {
			sz, _ := strconv.Atoi(strings.Split(op[7:], ":")[0])
			switch {
			case sz >= 4096 && unread == 0:
				c.Count("large_write_ge_4k_into_empty")
			case sz >= 4096 && pos > 0:
				c.Count("large_write_ge_4k_with_consumed_prefix")
			case sz >= 4096:
				c.Count("large_write_ge_4k")
			}
		}
		if strings.HasPrefix(op, "seek") {
			if p1, _, _, _ := p.state(); p1 < pos {
				c.Count("large_seek_back_into_consumed")
			}
		}
		ops = append(ops, op)
	}
	return kind + " | " + strings.Join(ops, " ; ")
}

// largeTemplates: deterministic skeletons over every large size (class coverage independent of the seed):
// fill - drain to a small remainder - compact - read; consume a prefix - large write - seek back - read; large write into a
// fresh / reset / drained object followed by more writes.
func largeTemplates(c *hx.Ctx, kind string, sizes []int, light bool) {
	emit := func(class string, ops ...string) {
		c.Emit("%s | %s", kind, strings.Join(ops, " ; "))
		c.Count(class)
	}
	rd := "read"
	for i, s := range sizes {
		seed := (37*i + 11) % 256
		big := fmt.Sprintf("@%d:%d", s, seed)
		big2 := fmt.Sprintf("@%d:%d", s, (seed+101)%256)
		rems, pres := []int{0, 1, 64, 65, 4096}, []int{1, 44, 100, 4096}
		if light { // one representative per skeleton (the 1 MiB lines of the quick tier)
			rems, pres = []int{1}, []int{44}
		}
		for _, rem := range rems {
			if rem >= s {
				continue
			}
			// fill, drain to `rem`, compact, read the rest, write again
			emit(kind+"_large_drain_tidy", "write "+big, fmt.Sprintf("%s %d", rd, s-rem), "tidy", "read 100", "write 0a0b0c", "read 100000")
			if kind == "buffer" {
				emit(kind+"_large_drain_grow", "write "+big, fmt.Sprintf("next %d", s-rem), fmt.Sprintf("grow %d", s), "write "+big2, "tidy", "next 70", fmt.Sprintf("read %d", 2*s))
			}
		}
		for _, pre := range pres {
			// consume a prefix, large write, seek back into the prefix, read across the boundary
			emit(kind+"_large_prefix_write_seekback", fmt.Sprintf("write #%d:7", 2*pre), fmt.Sprintf("read %d", pre), "write "+big, "seek 0 0",
				fmt.Sprintf("read %d", pre), fmt.Sprintf("seek %d 1", -pre/2-1), fmt.Sprintf("read %d", 3*pre), "tidy", fmt.Sprintf("read %d", s))
		}
		// large write into a fresh object, after a Reset and after a full drain; each followed by further writes
		emit(kind+"_large_into_empty", "write "+big, "write 0102", fmt.Sprintf("read %d", s/2), "reset", "write "+big2, "write "+big,
			fmt.Sprintf("read %d", 2*s), "write "+big2, "write 0304", fmt.Sprintf("read %d", s+1), "read 5")
	}
}

// ---------------------------------------------------------------- documented panics, then continue

// hugeGrow: Grow sizes that must end in the documented ErrTooLarge panic WITHOUT any allocation being attempted: either
// the overflow test c > maxInt-c-n trips, or makeSlice's make([]byte, 2c+n) panics because 2c+n exceeds the runtime's
// maxAlloc (2^48). Sizes with 2c+n <= 2^48 are never generated (a huge but admissible allocation is a fatal out-of-memory
// error, not a panic). The object is used further afterwards: a caller may recover.
func hugeGrow(c *hx.Ctx, capacity int) int {
	xs := []int{1 << 62, 1<<48 + 1, 1 << 49, 1 << 55, math.MaxInt, math.MaxInt - 1, math.MaxInt / 2,
		math.MaxInt - 2*capacity, math.MaxInt - 2*capacity + 1, math.MaxInt - 2*capacity - 1}
	return c.Rng.Pick(xs)
}

// panicTemplates: consumed prefix + unread data, then an op that panics by design (Grow(huge), Grow(-1), Next(-1)),
// then the object is used as if nothing had happened.
func panicTemplates(c *hx.Ctx) {
	for i, s := range []int{5, 64, 70, 200, 4096, 70000} {
		for _, k := range []int{0, 1, s / 2, s - 1, s} {
			for j, bad := range []string{"grow 4611686018427387904", "grow 281474976710657", "grow 9223372036854775807", "grow -1", "next -1"} {
				if (i+j)%2 == 1 && s > 200 { // thin out the large ones
					continue
				}
				pl := fmt.Sprintf("#%d:%d", s, 16*i+j)
				if s >= 4096 {
					pl = fmt.Sprintf("@%d:%d", s, 16*i+j)
				}
				c.Emit("buffer | write %s ; read %d ; %s ; read 3 ; %s ; write 0a0b0c ; tidy ; %s ; read %d", pl, k, bad, bad, bad, s+10)
				c.Count("buffer_panic_then_continue")
			}
		}
	}
}

// ---------------------------------------------------------------- long-running objects

var repCounts = []int{255, 256, 257, 300, 600, 1100}

// longRunning: one object that once held a burst of >= 4 KiB and then lives through k rounds of small
// write / read / tidy (plus seek, grow, rbyte, reset variants); observed after every single op.
func longRunning(c *hx.Ctx, kind string, k int) string {
	burst := c.Rng.Pick([]int{4096, 5000, 8192, 70000})
	rem := c.Rng.Pick([]int{0, 1, 7, 50})
	n := c.Rng.Range(1, 9)
	m := c.Rng.Range(1, n)
	head := fmt.Sprintf("write @%d:%d ; read %d", burst, c.Rng.Intn(256), burst-rem)
	if c.Rng.Bool() {
		head += " ; tidy"
	}
	var body string
	switch c.Rng.Intn(6) {
	case 0: // balanced
		body = fmt.Sprintf("rep %d ( write #%d:$ , read %d , tidy )", k, n, n)
	case 1: // residue grows by n-m per round
		body = fmt.Sprintf("rep %d ( write #%d:$ , read %d , tidy )", k, n, m)
	case 2:
		body = fmt.Sprintf("rep %d ( write #%d:$ , read %d , tidy , seek 0 1 , read 1 )", k, n+1, m)
	case 3:
		if kind == "buffer" {
			body = fmt.Sprintf("rep %d ( write #%d:$ , next %d , tidy , grow %d , read 1 )", k, n+1, m, c.Rng.Pick([]int{0, 1, 70}))
		} else {
			body = fmt.Sprintf("rep %d ( wi16 $ , rbyte , tidy , write #%d:$ , rbyte , read %d , tidy )", k, n, m)
		}
	case 4: // two lives separated by a Reset
		body = fmt.Sprintf("rep %d ( write #%d:$ , read %d , tidy ) ; reset ; write @%d:%d ; read %d ; rep %d ( write #%d:$ , read %d , tidy )",
			k/2, n, m, burst, c.Rng.Intn(256), burst-rem, k, n, m)
	default: // every round ends drained
		body = fmt.Sprintf("rep %d ( write #%d:$ , read %d , tidy , read %d )", k, n, m, n+rem+1)
	}
	return fmt.Sprintf("%s | %s ; %s ; read 100 ; write 0102 ; tidy ; read 100", kind, head, body)
}

// ---------------------------------------------------------------- two objects in one case

func twoObjTemplates(c *hx.Ctx, kind string, sizes []int) {
	for i, s := range sizes {
		a := fmt.Sprintf("@%d:%d", s, (29*i+3)%256)
		b := fmt.Sprintf("@%d:%d", s, (29*i+150)%256)
		fill := fmt.Sprintf("a: write %s ; b: write %s", a, b)
		small := "a: write 0a0b0c ; b: write 1a1b1c1d ; a: read 2 ; b: read 2 ; a: write 0d ; b: tidy ; b: write 1e1f ; a: read 100 ; b: read 100"
		// both objects: fill, release (reset / drain / one each), then small traffic on both at the same time
		c.Emit("%s | %s ; a: reset ; b: reset ; %s", kind, fill, small)
		c.Emit("%s | %s ; a: read %d ; b: read %d ; %s", kind, fill, s, s, small)
		c.Emit("%s | %s ; a: read %d ; a: tidy ; b: reset ; %s ; a: reset ; b: write %s ; a: write 2a2b ; b: read %d ; a: read 5", kind, fill, s-1, small, a, s+1)
		c.Count(kind + "_two_objects_template")
		c.Count(kind + "_two_objects_template")
		c.Count(kind + "_two_objects_template")
	}
}

type life struct {
	p     *probe
	phase int // 0 fill, 1 release, 2 small traffic
	left  int
}

func (l *life) next(c *hx.Ctx, kind string) string {
	pos, total, unread, _ := l.p.state()
	var op string
	switch l.phase {
	case 0:
		sz := pickLarge(c, false)
		if c.Rng.Intn(10) < 6 {
			sz = c.Rng.Pick([]int{65537, 66000, 70000, 131072})
		}
		op = "write " + bigPayload(c, sz)
		if l.left--; l.left <= 0 {
			l.phase = 1
		}
	case 1:
		switch r := c.Rng.Intn(10); {
		case r < 3:
			op = "reset"
		case r < 7:
			op = fmt.Sprintf("read %d", unread)
		case r < 8 && kind == "buffer":
			op = fmt.Sprintf("next %d", unread+1)
		default:
			op = fmt.Sprintf("read %d", unread-c.Rng.Pick([]int{1, 2, 64}))
			if strings.Contains(op, "-") {
				op = "read 1"
			}
		}
		l.phase, l.left = 2, c.Rng.Range(2, 7)
	default:
		switch r := c.Rng.Intn(20); {
		case r < 9:
			op = "write " + randPayload(c, c.Rng.Pick([]int{1, 2, 3, 8, 30, 63, 64, 65}))
		case r < 13:
			op = fmt.Sprintf("read %d", c.Rng.Pick([]int{1, 2, 5, 64, 100}))
		case r < 15:
			op = "tidy"
		case r < 16:
			op = randomSeek(c, pos, total)
		case r < 17:
			op = "reset"
		case r < 19 && kind == "buffer":
			op = fmt.Sprintf("grow %d", c.Rng.Pick([]int{0, 1, 64, 70}))
		case r < 19:
			op = "rbyte"
		default:
			op = fmt.Sprintf("read %d", unread)
		}
		if l.left--; l.left <= 0 {
			if c.Rng.Intn(3) == 0 {
				l.left = c.Rng.Range(2, 5)
			} else {
				l.phase, l.left = 0, c.Rng.Range(1, 2)
			}
		}
	}
	l.p.apply(op)
	return op
}

// twoObjSeq: two objects of the same kind living through fill (large) / release (reset or drain) / small-traffic cycles,
// randomly interleaved: state must never leak from one object into the other.
func twoObjSeq(c *hx.Ctx, kind string) string {
	objs := map[string]*life{"a": {p: newProbe(kind), left: c.Rng.Range(1, 2)}, "b": {p: newProbe(kind), left: c.Rng.Range(1, 2)}}
	n := c.Rng.Range(12, 40)
	ops := make([]string, 0, n)
	for i := 0; i < n; i++ {
		sel := "a"
		if c.Rng.Bool() {
			sel = "b"
		}
		ops = append(ops, sel+": "+objs[sel].next(c, kind))
		_, _, ua, ca := objs["a"].p.state()
		_, _, ub, cb := objs["b"].p.state()
		if kind == "buffer" && ca > 65536 && cb > 65536 && ua > 0 && ua <= 64 && ub > 0 && ub <= 64 {
			c.Count("two_objects_both_cap_gt_64k_unread_le_64")
		}
	}
	return kind + " | " + strings.Join(ops, " ; ")
}

// ---------------------------------------------------------------- capacity history

// The state these classes aim at is not visible in (cursor, contents): it is the CAPACITY the object acquired earlier in its
// life. An object that once held 64 KiB .. 1 MiB keeps (or deliberately gives back) that memory while its contents shrink to
// a few bytes; every op that compacts, reslices, reallocates or resets decides on cap/len/cursor together. The skeleton is
// always  grow (one or several large payloads) - drain to a chosen unread tail - compaction op - continued small use,
// observed after every op.

// capSizes: payload sizes after which the capacity is 64 KiB and more (quick tier); capSizesMore: thorough tier only (the
// drain/compact templates of the thorough tier list their sizes in gen)
var capSizes = []int{65536, 65537, 70000, 131072, 262144}
var capSizesMore = []int{98304, 131073, 200000, 400000, 524288, mib - 1, mib, mib + 1, 2 * mib}

// capTails: unread bytes left when the compaction op arrives: nothing, a few bytes, the small-buffer size, a page, a quarter
// of 64 KiB, 64 KiB, half / all but one / all of what is there
func capTails(s int) []int {
	var out []int
	seen := map[int]bool{}
	for _, t := range []int{0, 1, 3, 64, 100, 4096, 16383, 16384, 16385, 65535, 65536, 65537, s / 2, s - 1, s} {
		if t >= 0 && t <= s && !seen[t] {
			seen[t] = true
			out = append(out, t)
		}
	}
	if len(out) == 0 {
		out = []int{0}
	}
	return out
}

// drainTo: one op that moves the cursor from pos so that `tail` bytes stay unread (total = retained length)
func drainTo(kind string, variant, pos, total, tail int) string {
	k := total - pos - tail
	if k < 0 {
		k = 0
	}
	switch variant % 4 {
	case 0:
		return fmt.Sprintf("read %d", k)
	case 1:
		return fmt.Sprintf("seek %d 0", total-tail)
	case 2:
		return fmt.Sprintf("seek %d 2", -tail)
	}
	if kind == "buffer" {
		return fmt.Sprintf("next %d", k)
	}
	return fmt.Sprintf("seek %d 1", k)
}

// compactions: what follows the drain (rotated through by the templates)
func compactions(kind string, s int) []string {
	out := []string{"tidy", "reset", "tidy ; tidy", "write 0102 ; tidy", "seek 0 0 ; tidy", "seek -1 1 ; tidy"}
	if kind == "buffer" {
		out = append(out, "grow 1 ; tidy", fmt.Sprintf("grow %d", s), "grow 65", "next 1 ; tidy")
	} else {
		out = append(out, "wbyte 7 ; tidy", "rbyte ; tidy", "wi32 -2 ; tidy")
	}
	return out
}

// capHistoryTemplates (class a): large payload(s), drain to every tail of capTails, compaction, then the object is used on
// with small reads / writes / seeks / Tidy. all = every compaction for every (size, tail); otherwise Tidy for every
// (size, tail) plus, for every third (size, tail), one other compaction in rotation. light = four tails only (the 256 KiB
// and 512 KiB lines of the quick tier).
func capHistoryTemplates(c *hx.Ctx, kind string, sizes []int, all, light bool) {
	one := "rbyte"
	if kind == "buffer" {
		one = "next 1"
	}
	n := 0
	for i, s := range sizes {
		comps := compactions(kind, s)
		tails := capTails(s)
		if light {
			tails = []int{1, 16384, 16385, s / 2}
		}
		for j, t := range tails {
			for q, comp := range comps {
				if !all && q != 0 && !((i+j)%3 == 0 && q == 1+(i+j)/3%(len(comps)-1)) {
					continue
				}
				n++
				seed := (41*i + 7*j + q) % 256
				ops := []string{fmt.Sprintf("write @%d:%d", s, seed)}
				total := s
				if n%4 == 1 { // two payloads: the second arrives when the capacity is exactly used up / nearly used up
					extra := []int{1, 4096, 65537, s}[(n/4)%4]
					ops = append(ops, fmt.Sprintf("write @%d:%d", extra, (seed+90)%256))
					total += extra
				}
				tail := t
				if tail > total {
					tail = total
				}
				ops = append(ops, drainTo(kind, n, 0, total, tail), comp, "read 2")
				if tail > 16385 { // a large rest is consumed soon (every observation renders all unread bytes: model run time)
					ops = append(ops, fmt.Sprintf("read %d", tail-7), "tidy")
				}
				ops = append(ops, "write 0a0b0c", one, "seek 0 0", "read 100", "tidy", "write #40:9", "read 100000", "tidy", "write 0d", "read 5")
				c.Emit("%s | %s", kind, strings.Join(ops, " ; "))
				c.Count(kind + "_cap_history_drain_compact_reuse")
			}
		}
	}
}

// capCycleTemplates (class b): k rounds of  large payload - drain to `rem` - Tidy - small write - small read - Tidy  on one
// object (the capacity stays large, the contents stay small, the residue grows by rem+2 per round), with variants that
// drain by Seek, Reset in every round, or never Tidy between the rounds (the consumed prefix grows to several payloads).
func capCycleTemplates(c *hx.Ctx, kind string, thorough bool) {
	sizes := []int{65537, 70000, 131072}
	rounds := []int{2, 3, 5}
	if thorough {
		sizes = append(sizes, 65536, 200000, 262144, 524288, mib)
		rounds = []int{3, 5, 8, 17}
	}
	n := 0
	for i, s := range sizes {
		for j, rem := range []int{0, 1, 100, 16384, 16385} {
			for q, k := range rounds {
				if (!thorough || s > 70000) && q != (i+j)%len(rounds) {
					continue
				}
				if s > 131072 && k > 5 {
					k = 4
				}
				n++
				var body string
				switch n % 5 {
				case 0, 1:
					body = fmt.Sprintf("rep %d ( write @%d:$ , read %d , tidy , write #5:$ , read 3 , tidy )", k, s, s-rem)
				case 2:
					body = fmt.Sprintf("rep %d ( write @%d:$ , seek %d 2 , tidy , write #5:$ , read 3 , tidy , seek 0 0 , read 1 )", k, s, -rem)
				case 3:
					body = fmt.Sprintf("rep %d ( write @%d:$ , read %d , reset , write #5:$ , read 3 , tidy )", k, s, s-rem)
				default:
					body = fmt.Sprintf("rep %d ( write @%d:$ , read %d , write #5:$ , read 3 ) ; tidy", k, s, s-rem)
				}
				c.Emit("%s | %s ; read 100 ; write 0102 ; tidy ; read %d ; write 0304 ; read 5", kind, body, k*(rem+2)+s)
				c.Count(kind + "_cap_history_grow_drain_tidy_cycles")
			}
		}
	}
}

// capResetTemplates (class c): Reset after a large payload (nothing / one byte / half / all but one / all of it consumed),
// then the object is reused for small traffic, compacted, filled with a large payload again, drained, reset and reused.
func capResetTemplates(c *hx.Ctx, kind string, sizes []int) {
	one := "rbyte"
	if kind == "buffer" {
		one = "next 1"
	}
	for i, s := range sizes {
		for j, n := range []int{0, 1, s / 2, s - 1, s} {
			seed := (53*i + 11*j) % 256
			c.Emit("%s | write @%d:%d ; read %d ; reset ; write 0a0b0c ; read 2 ; tidy ; write #100:7 ; read 200 ; write @%d:%d ; read %d ; tidy ; reset ; write 0d0e ; %s ; %s ; %s ; reset ; write #70:1 ; seek 69 0 ; tidy ; read 5",
				kind, s, seed, n, s, (seed+77)%256, s-1, one, one, one)
			c.Count(kind + "_cap_history_reset_reuse")
		}
	}
}

// capHistorySeq (random counterpart of a-c): 1..3 cycles of  grow (1..3 payloads, the first one >= 64 KiB) - drain to a tail
// (through Read / Next / Seek with any whence) - compaction (Tidy, Reset, seek back, Grow, nothing) - 2..8 small ops (1..3
// while more than 16 KiB are unread).
func capHistorySeq(c *hx.Ctx, kind string, allowMiB bool) string {
	p := newProbe(kind)
	var ops []string
	do := func(op string) {
		p.apply(op)
		ops = append(ops, op)
	}
	// the probe runs the code under test: with a faulty implementation its figures may be anything; the generator must survive
	st := func() (pos, total, unread, capacity int) {
		pos, total, unread, capacity = p.state()
		return max(pos, 0), max(total, 0), max(unread, 0), max(capacity, 0)
	}
	for cy, cycles := 0, c.Rng.Range(1, 3); cy < cycles; cy++ {
		for k, m := 0, c.Rng.Range(1, 3); k < m; k++ {
			sz := c.Rng.Pick(capSizes[:4])
			switch {
			case c.Rng.Intn(8) == 0:
				sz = 262144
			case allowMiB && c.Rng.Intn(4) == 0:
				sz = c.Rng.Pick([]int{mib - 1, mib, mib + 1, 524288, 400000})
			case k > 0 && c.Rng.Bool():
				sz = c.Rng.Pick([]int{1, 3, 64, 4096, 16384, 16385})
			case c.Rng.Intn(4) == 0:
				sz = c.Rng.Range(65536, 200000)
			}
			do("write " + bigPayload(c, sz))
		}
		pos, total, unread, _ := st()
		tail := c.Rng.Pick(capTails(unread))
		if c.Rng.Intn(5) == 0 {
			tail = c.Rng.Range(0, unread)
		}
		do(drainTo(kind, c.Rng.Intn(4), pos, total, tail))
		switch {
		case tail == 0:
			c.Count("cap_history_random_tail_0")
		case tail <= 16384:
			c.Count("cap_history_random_tail_le_16k")
		default:
			c.Count("cap_history_random_tail_gt_16k")
		}
		pos, total, unread, capacity := st()
		switch r := c.Rng.Intn(20); {
		case r < 10:
			do("tidy")
		case r < 13:
			do("reset")
		case r < 15:
			do(fmt.Sprintf("seek %d 0", c.Rng.Range(0, pos)))
		case r < 17 && kind == "buffer":
			g := c.Rng.Pick([]int{1, 65, capacity - total, capacity - total + 1, capacity/2 - unread, capacity/2 - unread + 1, 70000})
			if g < 0 {
				g = 1
			}
			do(fmt.Sprintf("grow %d", g))
		case r < 17:
			do(fmt.Sprintf("wi32 %d", int32(c.Rng.U64())))
		}
		k := c.Rng.Range(2, 8)
		if _, _, u, _ := st(); u > 16385 { // every observation renders all unread bytes (model run time)
			k = c.Rng.Range(1, 3)
		}
		for ; k > 0; k-- {
			pos, total, unread, _ = st()
			switch r := c.Rng.Intn(20); {
			case r < 7:
				do("write " + randPayload(c, c.Rng.Pick([]int{1, 2, 3, 8, 30, 63, 64, 65, 200})))
			case r < 11:
				do(fmt.Sprintf("read %d", c.Rng.Pick([]int{1, 2, 5, 64, 100, unread, unread + 1})))
			case r < 14:
				do("tidy")
			case r < 16:
				do(randomSeek(c, pos, total))
			case r < 17:
				do("reset")
			case r < 19 && kind == "buffer":
				do(fmt.Sprintf("next %d", c.Rng.Pick([]int{1, 2, 64, unread})))
			case r < 19:
				do("rbyte")
			default:
				do(fmt.Sprintf("seek %d 0", c.Rng.Range(0, total)))
			}
		}
	}
	_, _, unread, _ := st()
	do("tidy")
	do(fmt.Sprintf("read %d", unread+1))
	do("write 0102")
	do("read 5")
	return kind + " | " + strings.Join(ops, " ; ")
}

// mix64: SplitMix64 finaliser. hx.NewRng(seed) starts the Weyl sequence at seed*G, so consecutive seeds would yield the
// same stream shifted by one draw; seeding with a mixed value makes the streams of different VERIF_SEEDs unrelated.
func mix64(z uint64) uint64 {
	z += 0x9E3779B97F4A7C15
	z = (z ^ (z >> 30)) * 0xBF58476D1CE4E5B9
	z = (z ^ (z >> 27)) * 0x94D049BB133111EB
	return z ^ (z >> 31)
}

func gen(c *hx.Ctx) {
	c.Rng = hx.NewRng(mix64(c.Seed))
	// bounded-exhaustive enumeration
	for _, kind := range []string{"buffer", "stream"} {
		exhaustive(c, kind, 3, 0, kind+"_exhaustive3_full")
		if c.Thorough() {
			exhaustive(c, kind, 4, 0, kind+"_exhaustive4_full")
			exhaustive(c, kind, 5, 2, kind+"_exhaustive5_reduced")
		} else {
			exhaustive(c, kind, 4, 2, kind+"_exhaustive4_reduced")
		}
	}
	// random long sequences
	for i, n := 0, c.Budget(3000, 50000); i < n; i++ {
		c.Emit("%s", randomSeq(c, "buffer", 60, false))
		c.Count("buffer_random")
	}
	for i, n := 0, c.Budget(1500, 25000); i < n; i++ {
		c.Emit("%s", randomSeq(c, "stream", 60, false))
		c.Count("stream_random")
	}
	// large sizes (4 KiB .. 1 MiB): deterministic skeletons + random sequences
	for _, kind := range []string{"buffer", "stream"} {
		if c.Thorough() {
			largeTemplates(c, kind, append(append([]int{}, largeSizes...), mib-1, mib, mib+1), false)
		} else {
			largeTemplates(c, kind, largeSizes, false)
			largeTemplates(c, kind, []int{mib}, true)
		}
		for i, n := 0, c.Budget(120, 1500); i < n; i++ {
			c.Emit("%s", largeSeq(c, kind, i%c.Budget(10, 3) == 0)) // 1 MiB chunks only in every 10th / 3rd sequence (model run time)
			c.Count(kind + "_large_random")
		}
	}
	// long-running objects: a burst, then hundreds of small write/read/tidy rounds on the same object
	for _, kind := range []string{"buffer", "stream"} {
		for _, k := range repCounts {
			for i, n := 0, c.Budget(5, 15); i < n; i++ {
				c.Emit("%s", longRunning(c, kind, k))
				c.Count(kind + "_long_running")
			}
		}
	}
	// documented panics followed by further use of the object
	panicTemplates(c)
	// two objects in one case
	for _, kind := range []string{"buffer", "stream"} {
		twoObjTemplates(c, kind, append([]int{100, 4096}, largeSizes...))
		for i, n := 0, c.Budget(60, 800); i < n; i++ {
			c.Emit("%s", twoObjSeq(c, kind))
			c.Count(kind + "_two_objects_random")
		}
	}
	// off the property's domain (negative Next/Grow sizes): model fidelity of the panic outcomes only
	for i, n := 0, c.Budget(300, 3000); i < n; i++ {
		c.Emit("%s", randomSeq(c, "buffer", 12, true))
		c.Count("buffer_offdomain")
	}
	// capacity history (64 KiB .. 1 MiB payloads, drain to a tail, compaction, reuse): kept LAST so that the cases of the
	// sections above stay the same for a given VERIF_SEED
	for _, kind := range []string{"buffer", "stream"} {
		if c.Thorough() { // every compaction for two sizes, rotation for the others, four tails for 1 MiB and above
			capHistoryTemplates(c, kind, []int{65537, 131072}, true, false)
			capHistoryTemplates(c, kind, []int{65536, 70000, 98304, 131073, 200000, 262144, 400000, 524288}, false, false)
			capHistoryTemplates(c, kind, []int{mib - 1, mib, mib + 1, 2 * mib}, false, true)
		} else {
			capHistoryTemplates(c, kind, capSizes[:4], false, false)
			capHistoryTemplates(c, kind, []int{262144, 524288}, false, true)
		}
		capCycleTemplates(c, kind, c.Thorough())
		if c.Thorough() {
			capResetTemplates(c, kind, append(append([]int{}, capSizes...), capSizesMore[:7]...)) // up to 1 MiB
		} else {
			capResetTemplates(c, kind, capSizes[:4])
		}
		for i, n := 0, c.Budget(24, 120); i < n; i++ {
			c.Emit("%s", capHistorySeq(c, kind, c.Thorough() && i%3 == 0))
			c.Count(kind + "_cap_history_random")
		}
	}
}
