// Package hx: shared plumbing of the correspondence harnesses.
// A harness = a generator of script lines (one self-contained case per line) + an executor that
// runs the case on the real code and renders the observation as one line.
// Output (in -out dir): script.txt, impl.txt (line i of impl.txt answers line i of script.txt),
// stats.json (input distribution).
package hx

import (
	"bufio"
	"encoding/json"
	"flag"
	"fmt"
	"os"
	"path/filepath"
	"sort"
	"strings"
)

// SplitMix64 — every random choice of a harness derives from one state seeded by VERIF_SEED.
type Rng struct{ s uint64 }

// NewRng: the seed is mixed first so that consecutive seeds give unrelated streams (the raw Weyl
// sequence of seed and seed+1 would be the same stream shifted by one draw).
func NewRng(seed uint64) *Rng {
	z := seed + 0x9E3779B97F4A7C15
	z = (z ^ (z >> 30)) * 0xBF58476D1CE4E5B9
	z = (z ^ (z >> 27)) * 0x94D049BB133111EB
	return &Rng{s: z ^ (z >> 31)}
}
func (r *Rng) U64() uint64 {
	r.s += 0x9E3779B97F4A7C15
	z := r.s
	z = (z ^ (z >> 30)) * 0xBF58476D1CE4E5B9
	z = (z ^ (z >> 27)) * 0x94D049BB133111EB
	return z ^ (z >> 31)
}
func (r *Rng) Intn(n int) int {
	if n <= 0 {
		return 0
	}
	return int(r.U64() % uint64(n))
}
func (r *Rng) Range(lo, hi int) int { return lo + r.Intn(hi-lo+1) } // inclusive
func (r *Rng) Bool() bool           { return r.U64()&1 == 1 }
func (r *Rng) Pick(xs []int) int    { return xs[r.Intn(len(xs))] }
func (r *Rng) Bytes(n int) []byte {
	b := make([]byte, n)
	for i := range b {
		b[i] = byte(r.U64())
	}
	return b
}

type Ctx struct {
	Seed  uint64
	Tier  string // quick | thorough
	Rng   *Rng
	Stats map[string]int
	emit  func(string)
}

func (c *Ctx) Emit(format string, a ...any) { c.emit(fmt.Sprintf(format, a...)) }
func (c *Ctx) Count(key string)             { c.Stats[key]++ }
func (c *Ctx) Thorough() bool               { return c.Tier == "thorough" }

// Budget returns q in the quick tier and t in the thorough tier.
func (c *Ctx) Budget(q, t int) int {
	if c.Thorough() {
		return t
	}
	return q
}

// SafeExec runs f and maps a panic to "panic <message>".
func SafeExec(f func() string) (out string) {
	defer func() {
		if r := recover(); r != nil {
			msg := strings.ReplaceAll(fmt.Sprint(r), "\n", " ")
			out = "panic " + msg
		}
	}()
	return f()
}

// Main: -seed N -tier T -out DIR [-replay FILE] [-corpus DIR]
// Corpus files (*.txt under -corpus) are executed first, then generated cases.
func Main(gen func(c *Ctx), exec func(c *Ctx, line string) string) {
	seed := flag.Uint64("seed", 1, "PRNG seed")
	tier := flag.String("tier", "quick", "quick|thorough")
	out := flag.String("out", ".", "output directory")
	replay := flag.String("replay", "", "execute the script lines of this file instead of generating")
	corpus := flag.String("corpus", "", "directory with corpus scripts (*.txt) to run first")
	flag.Parse()
	if err := os.MkdirAll(*out, 0o755); err != nil {
		panic(err)
	}
	sf, err := os.Create(filepath.Join(*out, "script.txt"))
	if err != nil {
		panic(err)
	}
	imf, err := os.Create(filepath.Join(*out, "impl.txt"))
	if err != nil {
		panic(err)
	}
	sw := bufio.NewWriterSize(sf, 1<<20)
	iw := bufio.NewWriterSize(imf, 1<<20)
	c := &Ctx{Seed: *seed, Tier: *tier, Rng: NewRng(*seed), Stats: map[string]int{}}
	n := 0
	sync := os.Getenv("HX_SYNC") == "1"
	c.emit = func(line string) {
		line = strings.TrimSpace(line)
		if line == "" || strings.HasPrefix(line, "#") {
			return
		}
		sw.WriteString(line)
		sw.WriteByte('\n')
		if sync {
			sw.Flush() // the case being executed is on disk before it runs (crash / hang localisation)
		}
		res := SafeExec(func() string { return exec(c, line) })
		iw.WriteString(strings.ReplaceAll(res, "\n", " "))
		iw.WriteByte('\n')
		if sync {
			iw.Flush()
		}
		n++
	}
	readFile := func(path string) {
		f, err := os.Open(path)
		if err != nil {
			panic(err)
		}
		defer f.Close()
		sc := bufio.NewScanner(f)
		sc.Buffer(make([]byte, 1<<20), 1<<26)
		for sc.Scan() {
			c.emit(sc.Text())
		}
	}
	if *replay != "" {
		readFile(*replay)
	} else {
		if *corpus != "" {
			files, _ := filepath.Glob(filepath.Join(*corpus, "*.txt"))
			sort.Strings(files)
			for _, f := range files {
				readFile(f)
				c.Stats["corpus_files"]++
			}
			c.Stats["corpus_lines"] = n
		}
		gen(c)
	}
	sw.Flush()
	iw.Flush()
	sf.Close()
	imf.Close()
	c.Stats["lines"] = n
	b, _ := json.MarshalIndent(c.Stats, "", " ")
	_ = os.WriteFile(filepath.Join(*out, "stats.json"), b, 0o644)
}
